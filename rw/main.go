// Command rw rewrites godi's non-test sources (from /repo's current working
// tree) so that they run under the vsched cooperative scheduler, and writes a
// `go build -overlay` file.  /repo itself is never modified.
//
// Rewrites (all by AST + go/types):
//   - import "sync" / "sync/atomic"  -> shim packages (same package names)
//   - go f(x)                         -> vsched.Go(func(){ f(x) })
//   - <-E.Done() (statement)          -> vsched.WaitDone(E)
//   - range over a map                -> range vsched.MapSeq(m)
//   - x.f (field of a godi struct)    -> (*vsched.R(&x.f, site)) / (*vsched.W(&x.f, site))
//   - v (mutable package-level var)   -> (*vsched.R(&v, site)) / (*vsched.W(&v, site))
//
// usage: rw -repo /repo -shim /verif/shim/vsched -out <dir>
package main

import (
	"bytes"
	"encoding/json"
	"flag"
	"fmt"
	"go/ast"
	"go/printer"
	"go/token"
	"go/types"
	"os"
	"path/filepath"
	"strconv"
	"strings"

	"golang.org/x/tools/go/ast/astutil"
	"golang.org/x/tools/go/packages"
)

const modPath = "github.com/junioryono/godi/v4"
const shimPath = modPath + "/internal/vsched"

type stats struct {
	Files      int            `json:"files"`
	Imports    int            `json:"imports_redirected"`
	GoStmts    int            `json:"go_statements"`
	WaitDone   int            `json:"waitdone"`
	MapRanges  int            `json:"map_ranges"`
	Reads      int            `json:"field_reads"`
	Writes     int            `json:"field_writes"`
	PkgVars    int            `json:"package_var_accesses"`
	Unshimmed  []string       `json:"unshimmed_constructs"`
	PerPackage map[string]int `json:"per_package_files"`
}

func main() {
	repo := flag.String("repo", "/repo", "repository root")
	shim := flag.String("shim", "/verif/shim/vsched", "vsched sources")
	out := flag.String("out", "", "output directory")
	noAccess := flag.Bool("noaccess", false, "do not instrument field accesses")
	shimOnly := flag.Bool("shimonly", false, "write only the virtual vsched package into the overlay (godi's sources stay untouched)")
	flag.Parse()
	if *out == "" {
		fatal("need -out")
	}
	if err := os.MkdirAll(*out, 0o755); err != nil {
		fatal(err.Error())
	}
	cfg := &packages.Config{
		Mode: packages.NeedName | packages.NeedFiles | packages.NeedCompiledGoFiles | packages.NeedSyntax | packages.NeedTypes |
			packages.NeedTypesInfo | packages.NeedImports | packages.NeedDeps,
		Dir: *repo,
		Env: append(os.Environ(), "GOFLAGS=-mod=mod", "GOPROXY=off"),
	}
	var pkgs []*packages.Package
	if !*shimOnly {
		var err error
		pkgs, err = packages.Load(cfg, ".", "./internal/graph", "./internal/reflection")
		if err != nil {
			fatal("load: " + err.Error())
		}
	}
	overlay := map[string]string{}
	st := &stats{PerPackage: map[string]int{}}
	for _, p := range pkgs {
		if len(p.Errors) > 0 {
			for _, e := range p.Errors {
				fmt.Fprintln(os.Stderr, "rw: package error:", e)
			}
			fatal("package " + p.PkgPath + " does not type-check")
		}
		mut := mutablePkgVars(p)
		for i, f := range p.Syntax {
			name := p.CompiledGoFiles[i]
			if strings.HasSuffix(name, "_test.go") {
				continue
			}
			r := &rewriter{pkg: p, file: f, fset: p.Fset, st: st, noAccess: *noAccess, mutVars: mut}
			r.rewrite()
			var buf bytes.Buffer
			f.Comments = nil
			if err := (&printer.Config{Mode: printer.UseSpaces | printer.TabIndent, Tabwidth: 8}).Fprint(&buf, p.Fset, f); err != nil {
				fatal("print " + name + ": " + err.Error())
			}
			rel, _ := filepath.Rel(*repo, name)
			dst := filepath.Join(*out, "src", rel)
			os.MkdirAll(filepath.Dir(dst), 0o755)
			if err := os.WriteFile(dst, buf.Bytes(), 0o644); err != nil {
				fatal(err.Error())
			}
			overlay[name] = dst
			st.Files++
			st.PerPackage[p.PkgPath]++
		}
	}
	// virtual package <repo>/internal/vsched/** -> shim sources
	filepath.Walk(*shim, func(path string, info os.FileInfo, err error) error {
		if err != nil || info.IsDir() || !strings.HasSuffix(path, ".go") {
			return nil
		}
		rel, _ := filepath.Rel(*shim, path)
		overlay[filepath.Join(*repo, "internal", "vsched", rel)] = path
		return nil
	})
	ob, _ := json.MarshalIndent(map[string]any{"Replace": overlay}, "", " ")
	if err := os.WriteFile(filepath.Join(*out, "overlay.json"), ob, 0o644); err != nil {
		fatal(err.Error())
	}
	sb, _ := json.MarshalIndent(st, "", " ")
	os.WriteFile(filepath.Join(*out, "rwstats.json"), sb, 0o644)
	fmt.Println(string(sb))
}

func fatal(msg string) {
	fmt.Fprintln(os.Stderr, "rw:", msg)
	os.Exit(2)
}

type rewriter struct {
	pkg      *packages.Package
	file     *ast.File
	fset     *token.FileSet
	st       *stats
	noAccess bool
	needShim bool
	kinds    map[*ast.SelectorExpr]int // 1 = write, 2 = skip
	mapRange map[*ast.RangeStmt]int    // 1 = map, 2 = chan
	ctxDone  map[*ast.ExprStmt]bool    // statement `<-E.Done()` with E a context
	sites    map[*ast.SelectorExpr]string
	idxKind  map[*ast.IndexExpr]int // slice element accesses: 1 = read, 2 = write, 3 = skip (address taken)
	afterFn  map[*ast.CallExpr]bool // calls of context.AfterFunc
	mutVars  map[*types.Var]bool    // package-level variables that are shared mutable state
	idKind   map[*ast.Ident]int     // package-level variable uses: 1 = read, 2 = write, 3 = skip
}

// pkgVarOf returns the package-level variable of this package an identifier refers to.
func pkgVarOf(p *packages.Package, id *ast.Ident) *types.Var {
	v, ok := p.TypesInfo.Uses[id].(*types.Var)
	if !ok || v.IsField() || v.Pkg() == nil || v.Parent() != p.Types.Scope() {
		return nil
	}
	return v
}

// mutablePkgVars lists the package-level variables that can be shared mutable state: those
// assigned / incremented / index-assigned / appended to / deleted from inside a function body, and
// those of map, slice or channel type. (Variables only initialised at their declaration, like
// error sentinels and reflect.Type constants, are immutable after package initialisation.)
func mutablePkgVars(p *packages.Package) map[*types.Var]bool {
	mut := map[*types.Var]bool{}
	mark := func(e ast.Expr) {
		e = unparen(e)
		if ix, ok := e.(*ast.IndexExpr); ok {
			e = unparen(ix.X)
		}
		if id, ok := e.(*ast.Ident); ok {
			if v := pkgVarOf(p, id); v != nil {
				mut[v] = true
			}
		}
	}
	for _, f := range p.Syntax {
		for _, d := range f.Decls {
			fd, ok := d.(*ast.FuncDecl)
			if !ok || fd.Body == nil {
				continue
			}
			ast.Inspect(fd.Body, func(n ast.Node) bool {
				switch x := n.(type) {
				case *ast.AssignStmt:
					if x.Tok != token.DEFINE {
						for _, l := range x.Lhs {
							mark(l)
						}
					}
				case *ast.IncDecStmt:
					mark(x.X)
				case *ast.RangeStmt:
					if x.Tok == token.ASSIGN {
						if x.Key != nil {
							mark(x.Key)
						}
						if x.Value != nil {
							mark(x.Value)
						}
					}
				case *ast.CallExpr:
					if id, ok := unparen(x.Fun).(*ast.Ident); ok && len(x.Args) > 0 && (id.Name == "delete" || id.Name == "clear") {
						if _, isBuiltin := p.TypesInfo.Uses[id].(*types.Builtin); isBuiltin {
							mark(x.Args[0])
						}
					}
				}
				return true
			})
		}
	}
	sc := p.Types.Scope()
	for _, n := range sc.Names() {
		if v, ok := sc.Lookup(n).(*types.Var); ok {
			switch v.Type().Underlying().(type) {
			case *types.Map, *types.Slice, *types.Chan:
				mut[v] = true
			}
			if isShimType(v.Type()) {
				delete(mut, v)
			}
		}
	}
	return mut
}

func (r *rewriter) info() *types.Info { return r.pkg.TypesInfo }

func unparen(e ast.Expr) ast.Expr {
	for {
		p, ok := e.(*ast.ParenExpr)
		if !ok {
			return e
		}
		e = p.X
	}
}

func (r *rewriter) markLHS(e ast.Expr) {
	e = unparen(e)
	switch x := e.(type) {
	case *ast.SelectorExpr:
		r.kinds[x] = 1
	case *ast.IndexExpr:
		if sel, ok := unparen(x.X).(*ast.SelectorExpr); ok {
			if t := r.info().TypeOf(sel); t != nil {
				if _, isMap := t.Underlying().(*types.Map); isMap {
					r.kinds[sel] = 1
				}
			}
		}
	}
}

func (r *rewriter) prepass() {
	r.kinds = map[*ast.SelectorExpr]int{}
	r.mapRange = map[*ast.RangeStmt]int{}
	r.ctxDone = map[*ast.ExprStmt]bool{}
	r.sites = map[*ast.SelectorExpr]string{}
	r.idxKind = map[*ast.IndexExpr]int{}
	r.afterFn = map[*ast.CallExpr]bool{}
	ast.Inspect(r.file, func(n ast.Node) bool {
		if call, ok := n.(*ast.CallExpr); ok {
			if sel, ok := call.Fun.(*ast.SelectorExpr); ok {
				if f, ok := r.info().Uses[sel.Sel].(*types.Func); ok && f.FullName() == "context.AfterFunc" {
					r.afterFn[call] = true
				}
			}
		}
		return true
	})
	isSliceIdx := func(x *ast.IndexExpr) bool {
		t := r.info().TypeOf(x.X)
		if t == nil {
			return false
		}
		_, ok := t.Underlying().(*types.Slice)
		return ok
	}
	markIdx := func(e ast.Expr, k int) {
		if x, ok := unparen(e).(*ast.IndexExpr); ok && isSliceIdx(x) {
			if r.idxKind[x] < k {
				r.idxKind[x] = k
			}
		}
	}
	ast.Inspect(r.file, func(n ast.Node) bool {
		switch x := n.(type) {
		case *ast.IndexExpr:
			if isSliceIdx(x) && r.idxKind[x] == 0 {
				r.idxKind[x] = 1
			}
		case *ast.AssignStmt:
			if x.Tok != token.DEFINE {
				for _, l := range x.Lhs {
					markIdx(l, 2)
				}
			}
		case *ast.IncDecStmt:
			markIdx(x.X, 2)
		case *ast.UnaryExpr:
			if x.Op == token.AND {
				markIdx(x.X, 3)
			}
		}
		return true
	})
	ast.Inspect(r.file, func(n ast.Node) bool {
		switch x := n.(type) {
		case *ast.ExprStmt:
			if u, ok := unparen(x.X).(*ast.UnaryExpr); ok && u.Op == token.ARROW {
				if call, ok := unparen(u.X).(*ast.CallExpr); ok && len(call.Args) == 0 {
					if s, ok := call.Fun.(*ast.SelectorExpr); ok && s.Sel.Name == "Done" && r.isContext(s.X) {
						r.ctxDone[x] = true
					}
				}
			}
		case *ast.AssignStmt:
			if x.Tok != token.DEFINE {
				for _, l := range x.Lhs {
					r.markLHS(l)
				}
			}
		case *ast.IncDecStmt:
			r.markLHS(x.X)
		case *ast.RangeStmt:
			if t := r.info().TypeOf(x.X); t != nil {
				switch t.Underlying().(type) {
				case *types.Map:
					r.mapRange[x] = 1
				case *types.Chan:
					r.mapRange[x] = 2
				}
			}
			if x.Tok == token.ASSIGN {
				if x.Key != nil {
					r.markLHS(x.Key)
				}
				if x.Value != nil {
					r.markLHS(x.Value)
				}
			}
		case *ast.UnaryExpr:
			if x.Op == token.AND {
				if sel, ok := unparen(x.X).(*ast.SelectorExpr); ok {
					r.kinds[sel] = 2
				}
			}
		case *ast.CallExpr:
			if id, ok := unparen(x.Fun).(*ast.Ident); ok && len(x.Args) > 0 {
				if _, isBuiltin := r.info().Uses[id].(*types.Builtin); isBuiltin && (id.Name == "delete" || id.Name == "clear") {
					if sel, ok := unparen(x.Args[0]).(*ast.SelectorExpr); ok {
						r.kinds[sel] = 1
					}
				}
			}
		}
		return true
	})
	r.idKind = map[*ast.Ident]int{}
	if !r.noAccess && len(r.mutVars) > 0 {
		setID := func(e ast.Expr, k int) {
			e = unparen(e)
			if ix, ok := e.(*ast.IndexExpr); ok && k == 2 {
				// m[k] = v writes the map held by the variable
				if t := r.info().TypeOf(ix.X); t != nil {
					if _, isMap := t.Underlying().(*types.Map); isMap {
						e = unparen(ix.X)
					}
				}
			}
			if id, ok := e.(*ast.Ident); ok {
				if v := pkgVarOf(r.pkg, id); v != nil && r.mutVars[v] && r.idKind[id] < k {
					r.idKind[id] = k
				}
			}
		}
		for _, d := range r.file.Decls {
			fd, ok := d.(*ast.FuncDecl)
			if !ok || fd.Body == nil {
				continue // package-level initialisers run before any goroutine exists
			}
			ast.Inspect(fd.Body, func(n ast.Node) bool {
				switch x := n.(type) {
				case *ast.Ident:
					setID(x, 1)
				case *ast.AssignStmt:
					if x.Tok != token.DEFINE {
						for _, l := range x.Lhs {
							setID(l, 2)
						}
					}
				case *ast.IncDecStmt:
					setID(x.X, 2)
				case *ast.RangeStmt:
					if x.Tok == token.ASSIGN {
						if x.Key != nil {
							setID(x.Key, 2)
						}
						if x.Value != nil {
							setID(x.Value, 2)
						}
					}
				case *ast.UnaryExpr:
					if x.Op == token.AND {
						setID(x.X, 3) // address taken: handed to an atomic / to a callee
					}
				case *ast.CallExpr:
					if id, ok := unparen(x.Fun).(*ast.Ident); ok && len(x.Args) > 0 && (id.Name == "delete" || id.Name == "clear") {
						if _, isBuiltin := r.info().Uses[id].(*types.Builtin); isBuiltin {
							setID(x.Args[0], 2)
						}
					}
				case *ast.SelectorExpr:
					// pkg.Name / x.field: the Sel identifier is not a variable use of its own
					r.idKind[x.Sel] = 3
				case *ast.KeyValueExpr:
					if id, ok := x.Key.(*ast.Ident); ok {
						if _, isVar := r.info().Uses[id].(*types.Var); isVar && pkgVarOf(r.pkg, id) == nil {
							r.idKind[id] = 3
						}
					}
				}
				return true
			})
		}
	}
	if !r.noAccess {
		ast.Inspect(r.file, func(n ast.Node) bool {
			if x, ok := n.(*ast.SelectorExpr); ok {
				if site, ok := r.fieldSite(x); ok {
					r.sites[x] = site
				}
			}
			return true
		})
	}
}

func isShimType(t types.Type) bool {
	for {
		if p, ok := t.(*types.Pointer); ok {
			t = p.Elem()
			continue
		}
		break
	}
	if n, ok := t.(*types.Named); ok && n.Obj().Pkg() != nil {
		pp := n.Obj().Pkg().Path()
		return pp == "sync" || pp == "sync/atomic"
	}
	return false
}

// sharedAddressable reports whether e denotes an addressable location that may
// be reachable from several threads (anything behind a pointer or slice).
func (r *rewriter) sharedAddressable(e ast.Expr) bool {
	e = unparen(e)
	switch x := e.(type) {
	case *ast.StarExpr:
		return true
	case *ast.SelectorExpr:
		sel := r.info().Selections[x]
		if sel == nil || sel.Kind() != types.FieldVal {
			return false
		}
		if _, ok := r.info().TypeOf(x.X).Underlying().(*types.Pointer); ok {
			return true
		}
		if sel.Indirect() {
			return true
		}
		return r.sharedAddressable(x.X)
	case *ast.IndexExpr:
		t := r.info().TypeOf(x.X)
		if t == nil {
			return false
		}
		switch t.Underlying().(type) {
		case *types.Slice:
			return true
		case *types.Array:
			return r.sharedAddressable(x.X)
		case *types.Pointer: // pointer to array
			return true
		}
		return false
	}
	return false
}

func (r *rewriter) fieldSite(x *ast.SelectorExpr) (string, bool) {
	sel := r.info().Selections[x]
	if sel == nil || sel.Kind() != types.FieldVal {
		return "", false
	}
	obj := sel.Obj()
	if obj.Pkg() == nil || !strings.HasPrefix(obj.Pkg().Path(), modPath) {
		return "", false
	}
	if isShimType(obj.Type()) {
		return "", false
	}
	recv := sel.Recv()
	if _, ok := recv.Underlying().(*types.Pointer); !ok && !sel.Indirect() {
		if !r.sharedAddressable(x.X) {
			return "", false
		}
	}
	for {
		if p, ok := recv.(*types.Pointer); ok {
			recv = p.Elem()
			continue
		}
		break
	}
	tn := recv.String()
	if n, ok := recv.(*types.Named); ok {
		tn = n.Obj().Name()
	}
	pos := r.fset.Position(x.Sel.Pos())
	return fmt.Sprintf("%s:%d %s.%s", filepath.Base(pos.Filename), pos.Line, tn, obj.Name()), true
}

func shimCall(fn string, args ...ast.Expr) *ast.CallExpr {
	return &ast.CallExpr{Fun: &ast.SelectorExpr{X: ast.NewIdent("vsched"), Sel: ast.NewIdent(fn)}, Args: args}
}

func (r *rewriter) rewrite() {
	// imports
	for _, imp := range r.file.Imports {
		p, _ := strconv.Unquote(imp.Path.Value)
		switch p {
		case "sync":
			imp.Path.Value = strconv.Quote(shimPath + "/vsync")
			r.st.Imports++
		case "sync/atomic":
			imp.Path.Value = strconv.Quote(shimPath + "/vatomic")
			r.st.Imports++
		}
	}
	r.prepass()
	astutil.Apply(r.file, nil, func(c *astutil.Cursor) bool {
		switch x := c.Node().(type) {
		case *ast.GoStmt:
			r.needShim = true
			r.st.GoStmts++
			var fn ast.Expr
			if lit, ok := x.Call.Fun.(*ast.FuncLit); ok && len(x.Call.Args) == 0 {
				fn = lit
			} else {
				fn = &ast.FuncLit{Type: &ast.FuncType{Params: &ast.FieldList{}}, Body: &ast.BlockStmt{List: []ast.Stmt{&ast.ExprStmt{X: x.Call}}}}
			}
			c.Replace(&ast.ExprStmt{X: shimCall("Go", fn)})
		case *ast.ExprStmt:
			if _, inSelect := c.Parent().(*ast.CommClause); inSelect {
				return true
			}
			if u, ok := unparen(x.X).(*ast.UnaryExpr); ok && u.Op == token.ARROW {
				if call, ok := unparen(u.X).(*ast.CallExpr); ok && len(call.Args) == 0 {
					if s, ok := call.Fun.(*ast.SelectorExpr); ok && r.ctxDone[x] {
						r.needShim = true
						r.st.WaitDone++
						c.Replace(&ast.ExprStmt{X: shimCall("WaitDone", s.X)})
						return true
					}
				}
				pos := r.fset.Position(x.Pos())
				r.st.Unshimmed = append(r.st.Unshimmed, fmt.Sprintf("%s:%d channel receive", filepath.Base(pos.Filename), pos.Line))
			}
		case *ast.SendStmt:
			pos := r.fset.Position(x.Pos())
			r.st.Unshimmed = append(r.st.Unshimmed, fmt.Sprintf("%s:%d channel send", filepath.Base(pos.Filename), pos.Line))
		case *ast.RangeStmt:
			switch r.mapRange[x] {
			case 1:
				r.needShim = true
				r.st.MapRanges++
				x.X = shimCall("MapSeq", x.X)
			case 2:
				pos := r.fset.Position(x.Pos())
				r.st.Unshimmed = append(r.st.Unshimmed, fmt.Sprintf("%s:%d range over channel", filepath.Base(pos.Filename), pos.Line))
			}
		case *ast.CallExpr:
			if r.afterFn[x] {
				// a goroutine started by the runtime would escape the scheduler
				r.needShim = true
				x.Fun = &ast.SelectorExpr{X: ast.NewIdent("vsched"), Sel: ast.NewIdent("AfterFunc")}
			}
		case *ast.IndexExpr:
			if r.noAccess {
				return true
			}
			k := r.idxKind[x]
			if k == 0 || k == 3 {
				return true
			}
			pos := r.fset.Position(x.Lbrack)
			site := fmt.Sprintf("%s:%d []elem", filepath.Base(pos.Filename), pos.Line)
			fn := "R"
			if k == 2 {
				fn = "W"
				r.st.Writes++
			} else {
				r.st.Reads++
			}
			r.needShim = true
			c.Replace(&ast.ParenExpr{X: &ast.StarExpr{X: shimCall(fn,
				&ast.UnaryExpr{Op: token.AND, X: x},
				&ast.BasicLit{Kind: token.STRING, Value: strconv.Quote(site)})}})
		case *ast.Ident:
			k := r.idKind[x]
			if r.noAccess || k == 0 || k == 3 {
				return true
			}
			if sel, ok := c.Parent().(*ast.SelectorExpr); ok && sel.Sel == x {
				return true
			}
			pos := r.fset.Position(x.Pos())
			site := fmt.Sprintf("%s:%d var %s", filepath.Base(pos.Filename), pos.Line, x.Name)
			fn := "R"
			if k == 2 {
				fn = "W"
			}
			r.st.PkgVars++
			r.needShim = true
			c.Replace(&ast.ParenExpr{X: &ast.StarExpr{X: shimCall(fn,
				&ast.UnaryExpr{Op: token.AND, X: ast.NewIdent(x.Name)},
				&ast.BasicLit{Kind: token.STRING, Value: strconv.Quote(site)})}})
		case *ast.SelectorExpr:
			if r.noAccess {
				return true
			}
			k := r.kinds[x]
			if k == 2 {
				return true
			}
			// never rewrite the operand of a KeyValue key or a method value callee
			site, ok := r.sites[x]
			if !ok {
				return true
			}
			fn := "R"
			if k == 1 {
				fn = "W"
				r.st.Writes++
			} else {
				r.st.Reads++
			}
			r.needShim = true
			c.Replace(&ast.ParenExpr{X: &ast.StarExpr{X: shimCall(fn,
				&ast.UnaryExpr{Op: token.AND, X: x},
				&ast.BasicLit{Kind: token.STRING, Value: strconv.Quote(site)})}})
		}
		return true
	})
	if r.needShim {
		astutil.AddNamedImport(r.fset, r.file, "vsched", shimPath)
	}
}

func (r *rewriter) isContext(e ast.Expr) bool {
	t := r.info().TypeOf(e)
	if t == nil {
		return false
	}
	ms := types.NewMethodSet(t)
	return ms.Lookup(nil, "Err") != nil && ms.Lookup(nil, "Done") != nil
}
