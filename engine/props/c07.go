package props

import (
	"encoding/json"
	"errors"
	"fmt"

	"github.com/junioryono/godi/v4"
	"github.com/junioryono/godi/v4/verifmc/kit"
	"github.com/junioryono/godi/v4/verifmc/mc"
)

// C07 — no captive dependencies; C08 — Build accepts exactly the resolvable sets.

// runCfg builds the case, and if it builds resolves every identity from two
// scopes (and the provider), then closes the provider.
func runCfg(c cfgCase) (*Env, *Model) {
	spec := c.spec()
	m := NewModel(&spec)
	e := NewEnv(&spec)
	e.Build()
	if e.Prov != nil {
		e.Do(Op{Kind: "scope", Bind: "s1"})
		c.probeAll(e, "s1")
		e.Do(Op{Kind: "scope", Scope: "s1", Bind: "s2"})
		c.probeAll(e, "s2")
		c.probeAll(e, "s1")
		e.Do(Op{Kind: "close", Scope: ""})
	}
	return e, m
}

func edgeFormsOf(c cfgCase) string {
	seen := map[string]bool{}
	for _, l := range adjOf(c.N, c.Mask, false) {
		for _, j := range l {
			seen[c.Target[j]] = true
		}
	}
	s := ""
	for _, f := range []string{"plain", "keyed", "group", "alias"} {
		if seen[f] {
			if s != "" {
				s += "+"
			}
			s += f
		}
	}
	if s == "" {
		s = "none"
	}
	return s
}

func c07Oracle(c cfgCase, e *Env, m *Model) []Finding {
	var out []Finding
	want := m.LifetimeConflict()
	var le *godi.LifetimeConflictError
	isLC := e.BuildErr != nil && errors.As(e.BuildErr, &le)
	ef := edgeFormsOf(c)
	switch {
	case e.BuildPanic != nil:
		out = append(out, Finding{feat("clause", "build-panic"), fmt.Sprint(e.BuildPanic)})
	case want && e.BuildErr == nil:
		out = append(out, Finding{feat("clause", "conflict-accepted", "edge-forms", ef),
			"Build accepted a set in which a singleton/transient declares a dependency on a scoped registration"})
	case want && !isLC:
		out = append(out, Finding{feat("clause", "conflict-wrong-error", "edge-forms", ef, "class", kit.ClassOf(e.BuildErr)),
			"set with a lifetime conflict rejected, but not with a lifetime-conflict error: " + firstLine(e.BuildErr.Error())})
	case !want && isLC:
		out = append(out, Finding{feat("clause", "valid-rejected-as-conflict", "edge-forms", ef),
			"set without lifetime conflict rejected: " + firstLine(e.BuildErr.Error())})
	case !want && e.BuildErr != nil:
		out = append(out, Finding{feat("clause", "valid-not-buildable", "edge-forms", ef, "class", kit.ClassOf(e.BuildErr)),
			"valid set not buildable: " + firstLine(e.BuildErr.Error())})
	}
	if e.Prov != nil {
		for _, f := range e.LifetimeOracle() {
			if f.F["clause"] == "captive" {
				f.F["edge-forms"] = ef
				out = append(out, f)
			}
		}
		for _, r := range e.Results {
			if r.Panic != nil {
				out = append(out, Finding{feat("clause", "panic", "op", r.Op.Kind), fmt.Sprintf("%s panicked: %v", r.Op, r.Panic)})
			}
		}
	}
	return out
}

func cfgRun(r *mc.Report, c cfgCase, oracle func(c cfgCase, e *Env, m *Model) []Finding) {
	var e *Env
	var m *Model
	s := seqOnce(func() { e, m = runCfg(c) })
	r.Executions++
	r.Validated++
	r.States++
	r.Transitions += int64(len(e.Results) + 1)
	v := "ok"
	if e.BuildErr != nil {
		v = kit.ClassOf(e.BuildErr)
	}
	r.Outcome(fmt.Sprintf("n=%d forms=%s verdict=%s model=%s", c.N, edgeFormsOf(c), v, m.Verdict()))
	fs := append(oracle(c, e, m), genericFindings(nil, s)...)
	for _, f := range fs {
		r.Violate(f.F, f.Detail+"\n  "+c.String(), c)
	}
	if len(r.Samples) < 2 && c.Mask != 0 && c.Mask%7 == 3 {
		r.Sample(map[string]any{"case": c, "verdict": v, "model": m.Verdict()})
	}
}

// c07AllTargets4: (thorough) every per-service form assignment also for 4 services.
var c07AllTargets4 bool

func c07Enumerate(r *mc.Report, n int, shard, nshards int) {
	if r.Only != nil {
		var c cfgCase
		if json.Unmarshal(r.Only, &c) == nil && c.N == n && len(c.Life) == n {
			cfgRun(r, c, c07Oracle)
		}
		return
	}
	var targets [][]string
	if n <= 3 || c07AllTargets4 {
		targets = allTargets(n, []string{"plain", "keyed", "group"})
	} else {
		for _, f := range []string{"plain", "keyed", "group"} {
			targets = append(targets, uniformTargets(n, f))
		}
	}
	// alias targets: the last one / two services are registered under interface aliases
	at := uniformTargets(n, "plain")
	at[n-1] = "alias"
	targets = append(targets, append([]string{}, at...))
	if n >= 3 {
		at[n-2] = "alias"
		targets = append(targets, append([]string{}, at...))
	}
	k := 0
	for _, mask := range dagMasks(n) {
		for _, life := range lifeAssignments(n) {
			k++
			if nshards > 1 && k%nshards != shard {
				continue
			}
			if n >= 3 && mask&(1<<(1*n+2)) == 0 {
				// (a member depending on its own group would be a cycle: C05's subject)
				// services 1 and 2 are two members (of one type) of one group
				mt := uniformTargets(n, "plain")
				mt[1], mt[2] = "group", "group"
				cfgRun(r, cfgCase{N: n, Mask: mask, Life: life, Target: mt, Shape: "in", Extra: "merge12"}, c07Oracle)
				if n == 4 {
					mt[3] = "keyed"
					cfgRun(r, cfgCase{N: n, Mask: mask, Life: life, Target: mt, Shape: "in", Extra: "merge12"}, c07Oracle)
				}
			}
			for _, t := range targets {
				cfgRun(r, cfgCase{N: n, Mask: mask, Life: life, Target: t, Shape: "in"}, c07Oracle)
				if fmt.Sprint(t) == fmt.Sprint(uniformTargets(n, "plain")) {
					cfgRun(r, cfgCase{N: n, Mask: mask, Life: life, Target: t, Shape: "positional"}, c07Oracle)
				}
			}
		}
	}
}

func init() {
	mc.Register(&mc.Check{
		Prop:        "C07",
		Rule:        "all dependency DAGs on <=4 services (edges respecting a fixed order; 1/2/8/64 DAGs) x all 3^n lifetime assignments x dependency forms: every per-target combination of {plain, keyed, group} for n<=3, uniform plain/keyed/group for n=4, interface aliases for the last one/two services, two-member groups of one type with every lifetime mix, In-struct and positional consumers; Build verdict compared with the model (lifetime-conflict error through BuildError iff some singleton/transient declares a dependency whose registration is scoped); on success every identity is resolved from a scope, its child and again, and no recorded constructor invocation of a singleton/transient may have received an instance of a scoped registration. distinct = (size, edge forms, verdict, model verdict) classes. Rebuild after edit: every history to depth 5 (quick) / 6 (thorough) over {14 Add variants (singleton / transient / scoped consumers with optional, required, keyed, group and keyed-optional dependencies; singleton and scoped providers, keyed providers, group members, unrelated services), Remove x3, RemoveKeyed, Build (<=2)}: the verdict of every Build of the edited collection equals the verdict of a FRESH collection holding the surviving registrations (differential oracle), a successful Build hands no scoped instance to a singleton / transient and leaves no registered identity unresolvable.",
		Assume:      []string{"'random larger sets' of the property are not covered: the claim is all sets with <= 4 services"},
		MinOutcomes: 6,
		Jobs: func(tier string) []mc.Job {
			jobs := []mc.Job{
				{Name: "c07-n1", Run: func(r *mc.Report) { c07Enumerate(r, 1, 0, 1) }},
				{Name: "c07-n2", Run: func(r *mc.Report) { c07Enumerate(r, 2, 0, 1) }},
			}
			for sh := 0; sh < 4; sh++ {
				sh := sh
				jobs = append(jobs, mc.Job{Name: fmt.Sprintf("c07-n3#%d", sh), Weight: 5, Run: func(r *mc.Report) { c07Enumerate(r, 3, sh, 4) }})
			}
			c07AllTargets4 = tier == "thorough"
			n4 := 12
			if tier == "thorough" {
				n4 = 64
			}
			for sh := 0; sh < n4; sh++ {
				sh := sh
				jobs = append(jobs, mc.Job{Name: fmt.Sprintf("c07-n4#%d", sh), Weight: 10, Run: func(r *mc.Report) { c07Enumerate(r, 4, sh, n4) }})
			}
			jobs = append(jobs, rbJobs("C07", depth4(tier)+1)...)
			return jobs
		},
	})
}
