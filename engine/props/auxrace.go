package props

import (
	"context"
	"encoding/json"
	"fmt"
	"os"
	"os/exec"
	"path/filepath"
	"regexp"
	"sort"
	"strings"
	"sync"
	"time"

	"github.com/junioryono/godi/v4/verifmc/mc"
)

// The auxiliary free-running pass of C09 (see cmd/racecheck): the unrewritten
// godi under the Go race detector, real goroutines, repeated. It samples; the
// exhaustive schedule exploration stays the deciding step. What it adds is a
// view through a different instrument: every memory access (the rewriter only
// instruments struct fields, slice elements and package-level variables of
// godi's packages) and the real memory model. A report whose two accesses are
// both inside godi's own packages is a genuine race (the detector has no false
// positives) and is reported as a violation; reports touching harness code are
// ignored.

type auxRaceCase struct {
	Program    string `json:"program"`
	Iterations int    `json:"iterations"`
}

var raceFrameRe = regexp.MustCompile(`(?m)^  (\S+)\(\)$`)

// godiFrames returns, per access section of a report, the first function that
// belongs to a Go module package (not runtime / reflect / sync).
func raceSections(report string) []string {
	var out []string
	parts := regexp.MustCompile(`(?m)^(?:Previous )?(?:[Rr]ead|[Ww]rite|[Aa]tomic \w+) at 0x[0-9a-f]+ by .*:$`).Split(report, -1)
	for _, sec := range parts[1:] {
		if i := strings.Index(sec, "\nGoroutine "); i >= 0 {
			sec = sec[:i]
		}
		first := "?"
		for _, m := range raceFrameRe.FindAllStringSubmatch(sec, -1) {
			fn := m[1]
			if strings.HasPrefix(fn, "runtime.") || strings.HasPrefix(fn, "reflect.") || strings.HasPrefix(fn, "sync.") || strings.HasPrefix(fn, "sync/atomic.") || strings.HasPrefix(fn, "internal/") {
				continue
			}
			first = fn
			break
		}
		out = append(out, first)
	}
	return out
}

func inGodi(fn string) bool {
	return strings.HasPrefix(fn, "github.com/junioryono/godi/v4") && !strings.Contains(fn, "/verifmc/") && !strings.Contains(fn, "/internal/vsched")
}

func auxRaceJob(tier string) mc.Job {
	return mc.Job{Name: "aux-free-running-race-pass", Weight: 60, Run: func(r *mc.Report) {
		exe, _ := os.Executable()
		bin := filepath.Join(filepath.Dir(exe), "racecheck")
		if _, err := os.Stat(bin); err != nil {
			r.Notes = append(r.Notes, "auxiliary -race pass skipped: racecheck binary not built")
			return
		}
		iters := 150
		if tier == "thorough" {
			iters = 1500
		}
		var progs []string
		if r.Only != nil {
			var c auxRaceCase
			if json.Unmarshal(r.Only, &c) != nil || c.Program == "" {
				return
			}
			progs = []string{c.Program}
			iters = 5 * c.Iterations
		} else {
			out, err := exec.Command(bin).Output()
			if err != nil {
				r.Notes = append(r.Notes, "auxiliary -race pass skipped: "+err.Error())
				return
			}
			progs = strings.Fields(string(out))
			sort.Strings(progs)
		}
		dir, err := os.MkdirTemp("", "auxrace")
		if err != nil {
			r.Notes = append(r.Notes, "auxiliary -race pass skipped: "+err.Error())
			return
		}
		defer os.RemoveAll(dir)
		type res struct {
			prog string
			err  error
			out  string
		}
		results := make([]res, len(progs))
		var wg sync.WaitGroup
		sem := make(chan struct{}, 4)
		for i, p := range progs {
			wg.Add(1)
			go func(i int, p string) {
				defer wg.Done()
				sem <- struct{}{}
				defer func() { <-sem }()
				// free-running code can hang for good (a real deadlock): bound the wait. The bound is not an
				// oracle - a program that does not finish is only noted; deadlocks are the explorer's subject
				ctx, cancel := context.WithTimeout(context.Background(), 3*time.Minute)
				defer cancel()
				cmd := exec.CommandContext(ctx, bin, p, fmt.Sprint(iters))
				cmd.Env = append(os.Environ(), "GORACE=halt_on_error=0 log_path="+filepath.Join(dir, p), "GOMAXPROCS=4")
				b, err := cmd.CombinedOutput()
				if ctx.Err() != nil {
					err = fmt.Errorf("did not finish within 3 minutes")
				}
				results[i] = res{p, err, string(b)}
			}(i, p)
		}
		wg.Wait()
		total := 0
		for _, rs := range results {
			if rs.err != nil && strings.Contains(rs.err.Error(), "did not finish") {
				r.Notes = append(r.Notes, fmt.Sprintf("auxiliary -race pass: free-running program %s %v (no verdict is drawn from this)", rs.prog, rs.err))
				continue
			}
			if rs.err != nil && !strings.Contains(rs.err.Error(), "exit status 66") {
				r.MachErr = append(r.MachErr, fmt.Sprintf("racecheck %s failed: %v %s", rs.prog, rs.err, firstLine(rs.out)))
				continue
			}
			r.Executions += int64(iters)
			total += iters
			logs, _ := filepath.Glob(filepath.Join(dir, rs.prog+".*"))
			for _, lf := range logs {
				b, _ := os.ReadFile(lf)
				for _, rep := range strings.Split(string(b), "==================") {
					if !strings.Contains(rep, "DATA RACE") {
						continue
					}
					secs := raceSections(rep)
					if len(secs) < 2 || !inGodi(secs[0]) || !inGodi(secs[1]) {
						continue // an access in harness / user code: not godi's race
					}
					short := func(fn string) string { return strings.TrimPrefix(fn, "github.com/junioryono/godi/v4") }
					a, b2 := short(secs[0]), short(secs[1])
					if b2 < a {
						a, b2 = b2, a
					}
					r.Violate(feat("clause", "race", "field", "free-running:"+a+"|"+b2, "scenario", "aux-race-pass"),
						fmt.Sprintf("the Go race detector reports a data race inside godi in the free-running program %q (%d iterations):\n%s", rs.prog, iters, indent(trimReport(rep))),
						auxRaceCase{Program: rs.prog, Iterations: iters})
				}
			}
		}
		r.Outcome(fmt.Sprintf("aux race pass: %d programs", len(progs)))
		r.Extra["aux_race_pass_programs"] += int64(len(progs))
		r.Extra["aux_race_pass_iterations"] += int64(total)
	}}
}

func trimReport(rep string) string {
	lines := strings.Split(strings.TrimSpace(rep), "\n")
	if len(lines) > 40 {
		lines = append(lines[:40], "...")
	}
	return strings.Join(lines, "\n")
}

func indent(s string) string { return "    " + strings.ReplaceAll(s, "\n", "\n    ") }
