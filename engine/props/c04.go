package props

import (
	"encoding/json"
	"fmt"
	"reflect"
	"strings"

	"github.com/junioryono/godi/v4/internal/vsched"
	"github.com/junioryono/godi/v4/verifmc/kit"
	"github.com/junioryono/godi/v4/verifmc/mc"
)

// ---------------------------------------------------------------- function kinds

type bodyFn = func([]reflect.Value) []reflect.Value

//go:noinline
func mkClosureP0(b bodyFn) func() *kit.P0 {
	return func() *kit.P0 { return b(nil)[0].Interface().(*kit.P0) }
}

//go:noinline
func mkClosureP1(b bodyFn) func() *kit.P1 {
	return func() *kit.P1 { return b(nil)[0].Interface().(*kit.P1) }
}

//go:noinline
func mkClosureP0dep(b bodyFn) func(*kit.P1) *kit.P0 {
	return func(d *kit.P1) *kit.P0 { return b([]reflect.Value{reflect.ValueOf(d)})[0].Interface().(*kit.P0) }
}

func (m *maker) MakeP0dep(d *kit.P1) *kit.P0 {
	return m.b([]reflect.Value{reflect.ValueOf(d)})[0].Interface().(*kit.P0)
}

type maker struct{ b bodyFn }

func (m *maker) MakeP0() *kit.P0 { return m.b(nil)[0].Interface().(*kit.P0) }
func (m *maker) MakeP1() *kit.P1 { return m.b(nil)[0].Interface().(*kit.P1) }

var topBodies [4]bodyFn

func top0() *kit.P0 { return topBodies[0](nil)[0].Interface().(*kit.P0) }
func top1() *kit.P0 { return topBodies[1](nil)[0].Interface().(*kit.P0) }
func top2() *kit.P1 { return topBodies[2](nil)[0].Interface().(*kit.P1) }

var genBodies = map[reflect.Type]bodyFn{}

type tagA struct{}
type tagB struct{ _ int }
type tagC struct{ _ string }

func genP0[Tag any]() *kit.P0 {
	return genBodies[reflect.TypeOf((*Tag)(nil))](nil)[0].Interface().(*kit.P0)
}
func genAny[T any, Tag any]() T {
	return genBodies[reflect.TypeOf((*Tag)(nil))](nil)[0].Interface().(T)
}

type fnKindCase struct {
	Kind string `json:"kind"`
	Life string `json:"life"`
}

// re-entrant resolution: r0 -> P0@a and r1 -> P0@b share code and signature and both
// take a transient P1 whose constructor, on its first invocation, resolves P0@b
// from the injected Scope - i.e. b is constructed while a's arguments are being built.
func reentrantSpec(life string) kit.Spec {
	return kit.Spec{Regs: []kit.Reg{
		{ID: 0, Life: life, Outs: []kit.Out{{T: "P0"}}, Name: "a", Deps: []kit.Dep{{T: "P1"}}},
		{ID: 1, Life: life, Outs: []kit.Out{{T: "P0"}}, Name: "b", Deps: []kit.Dep{{T: "P1"}}},
		{ID: 2, Life: "transient", Outs: []kit.Out{{T: "P1"}}, Deps: []kit.Dep{{T: "scope"}}, Nested: []kit.Dep{{T: "P0", Key: "b"}}},
	}}
}

func runReentrant(c fnKindCase) (*Env, *Model) {
	spec := reentrantSpec(c.Life)
	e := NewEnv(&spec)
	w := e.W
	body := func(i int) bodyFn { r := &spec.Regs[i]; return w.Body(r, kit.FuncType(r)) }
	switch c.Kind {
	case "reentrant-closure":
		w.SetFn(0, mkClosureP0dep(body(0)))
		w.SetFn(1, mkClosureP0dep(body(1)))
	case "reentrant-methodvalue":
		w.SetFn(0, (&maker{body(0)}).MakeP0dep)
		w.SetFn(1, (&maker{body(1)}).MakeP0dep)
	case "reentrant-makefunc":
	}
	m := NewModel(&spec)
	e.Build()
	if e.Prov != nil {
		e.Do(Op{Kind: "scope", Bind: "s1"})
		e.Do(Op{Kind: "get", Scope: "s1", T: "P0", Key: "a"})
		e.Do(Op{Kind: "get", Scope: "s1", T: "P0", Key: "b"})
		e.Do(Op{Kind: "get", Scope: "s1", T: "P0", Key: "a"})
		e.Do(Op{Kind: "scope", Bind: "s2"})
		e.Do(Op{Kind: "get", Scope: "s2", T: "P0", Key: "b"})
		e.Do(Op{Kind: "get", Scope: "s2", T: "P0", Key: "a"})
	}
	return e, m
}

// nestedOracle: what a constructor resolved from its injected scope is the
// model's registration for that identity.
func (e *Env) nestedOracle(m *Model) []Finding {
	var out []Finding
	for _, cl := range e.W.Calls {
		for _, a := range cl.Nested {
			ro, ok := m.Services[Ident{T: a.Dep.T, Key: a.Dep.Key}]
			if !ok {
				continue
			}
			if a.Kind != "inst" || a.Inst.Reg != ro.Reg || a.Inst.Out != ro.Out {
				out = append(out, Finding{feat("clause", "nested-resolution-wrong-producer"), fmt.Sprintf("constructor r%d#%d resolved %s@%s from its scope and got %s, want an instance of r%d", cl.Reg, cl.Serial, a.Dep.T, a.Dep.Key, a.String(), ro.Reg)})
			}
		}
	}
	return out
}

var reentrantKinds = []string{"reentrant-closure", "reentrant-methodvalue", "reentrant-makefunc"}

var fnKinds = []string{"toplevel", "closure", "closure-difftype", "methodvalue", "methodvalue-difftype", "methodexpr", "generic", "generic-difftype", "makefunc", "makefunc-difftype"}

// fnKindSpec: r0 -> P0@a, r1 -> P0@b (same signature) and r2 -> P1 (different signature).
func fnKindSpec(life string) kit.Spec {
	return kit.Spec{Regs: []kit.Reg{
		{ID: 0, Life: life, Outs: []kit.Out{{T: "P0"}}, Name: "a"},
		{ID: 1, Life: life, Outs: []kit.Out{{T: "P0"}}, Name: "b"},
		{ID: 2, Life: life, Outs: []kit.Out{{T: "P1"}}},
	}}
}

func runFnKind(c fnKindCase) (*Env, *Model) {
	spec := fnKindSpec(c.Life)
	e := NewEnv(&spec)
	w := e.W
	body := func(i int) bodyFn { r := &spec.Regs[i]; return w.Body(r, kit.FuncType(r)) }
	switch c.Kind {
	case "toplevel":
		topBodies[0], topBodies[1], topBodies[2] = body(0), body(1), body(2)
		w.SetFn(0, top0)
		w.SetFn(1, top1)
		w.SetFn(2, top2)
	case "closure":
		w.SetFn(0, mkClosureP0(body(0)))
		w.SetFn(1, mkClosureP0(body(1)))
		w.SetFn(2, mkClosureP1(body(2)))
	case "closure-difftype":
		// only r0 and r2: closures of two different factories / types
		w.SetFn(0, mkClosureP0(body(0)))
		w.SetFn(1, top1)
		topBodies[1] = body(1)
		w.SetFn(2, mkClosureP1(body(2)))
	case "methodvalue":
		w.SetFn(0, (&maker{body(0)}).MakeP0)
		w.SetFn(1, (&maker{body(1)}).MakeP0)
		w.SetFn(2, (&maker{body(2)}).MakeP1)
	case "methodvalue-difftype":
		w.SetFn(0, (&maker{body(0)}).MakeP0)
		topBodies[1] = body(1)
		w.SetFn(1, top1)
		w.SetFn(2, (&maker{body(2)}).MakeP1)
	case "methodexpr":
		// method expressions bound through closures over distinct receivers
		m0, m1, m2 := &maker{body(0)}, &maker{body(1)}, &maker{body(2)}
		f := (*maker).MakeP0
		g := (*maker).MakeP1
		w.SetFn(0, func() *kit.P0 { return f(m0) })
		w.SetFn(1, func() *kit.P0 { return f(m1) })
		w.SetFn(2, func() *kit.P1 { return g(m2) })
	case "generic":
		genBodies[reflect.TypeOf((*tagA)(nil))] = body(0)
		genBodies[reflect.TypeOf((*tagB)(nil))] = body(1)
		genBodies[reflect.TypeOf((*tagC)(nil))] = body(2)
		w.SetFn(0, genP0[tagA])
		w.SetFn(1, genP0[tagB])
		w.SetFn(2, genAny[*kit.P1, tagC])
	case "generic-difftype":
		genBodies[reflect.TypeOf((*tagA)(nil))] = body(0)
		genBodies[reflect.TypeOf((*tagB)(nil))] = body(1)
		genBodies[reflect.TypeOf((*tagC)(nil))] = body(2)
		w.SetFn(0, genAny[*kit.P0, tagA])
		w.SetFn(1, genAny[*kit.P0, tagB])
		w.SetFn(2, genAny[*kit.P1, tagC])
	case "makefunc":
		// default kit behaviour: reflect.MakeFunc values (all share one code pointer)
	case "makefunc-difftype":
		topBodies[1] = body(1)
		w.SetFn(1, top1)
	}
	m := NewModel(&spec)
	e.Build()
	if e.Prov != nil {
		e.Do(Op{Kind: "scope", Bind: "s1"})
		probeUniverse(e, "s1", []string{"P0", "P1"}, []string{"", "a", "b"}, nil)
		e.Do(Op{Kind: "scope", Bind: "s2"})
		probeUniverse(e, "s2", []string{"P0", "P1"}, []string{"", "a", "b"}, nil)
	}
	return e, m
}

// probeUniverse issues Get/GetKeyed/GetGroup for every identity of the given universe.
func probeUniverse(e *Env, scope string, types, keys, groups []string) {
	for _, t := range types {
		for _, k := range keys {
			e.Do(Op{Kind: "get", Scope: scope, T: t, Key: k})
		}
		for _, g := range groups {
			e.Do(Op{Kind: "group", Scope: scope, T: t, Group: g})
		}
	}
}

// ProbeOracle: a probe succeeds iff the model registry holds that identity,
// and yields an instance produced by exactly that registration's output.
func (e *Env) ProbeOracle(m *Model) []Finding {
	var out []Finding
	for _, r := range e.Results {
		if r.Skipped || r.Panic != nil || strings.Contains(r.Class, "disposed") || strings.Contains(r.Class, "injected") {
			continue // use of closed objects is C13's subject; injected constructor failures are C15's
		}
		switch r.Op.Kind {
		case "get":
			if reservedNames[r.Op.T] {
				continue
			}
			id := Ident{T: r.Op.T, Key: r.Op.Key}
			ro, ok := m.Services[id]
			form := "?"
			if ok {
				form = regForm(m.regs[ro.Reg])
			}
			switch {
			case ok && r.Err != nil:
				out = append(out, Finding{feat("clause", "registered-identity-unresolvable", "form", form, "class", r.Class),
					fmt.Sprintf("%s: identity %s is registered (r%d) but resolution failed: %v", r.Op, id, ro.Reg, r.Err)})
			case ok && strings.HasPrefix(kit.Describe(r.Val), "typednil"):
				// a typed nil the constructor itself returned (fault plan "nil"); C15's subject
			case ok:
				in := kit.InstOf(r.Val)
				if in == nil || in.Reg != ro.Reg || in.Out != ro.Out {
					out = append(out, Finding{feat("clause", "wrong-producer", "form", form),
						fmt.Sprintf("%s: identity %s must come from r%d output %d, got %s", r.Op, id, ro.Reg, ro.Out, kit.Describe(r.Val))})
				}
			case !ok && r.Err == nil:
				out = append(out, Finding{feat("clause", "unregistered-identity-resolvable"),
					fmt.Sprintf("%s: identity %s is not registered but resolved to %s", r.Op, id, kit.Describe(r.Val))})
			case !ok && r.Class != "notfound":
				out = append(out, Finding{feat("clause", "unregistered-identity-wrong-error", "class", r.Class),
					fmt.Sprintf("%s: identity %s is not registered; error is not 'service not found': %v", r.Op, id, r.Err)})
			}
		case "group":
			ms := m.Groups[Ident{T: r.Op.T, Group: r.Op.Group}]
			if r.Err != nil {
				out = append(out, Finding{feat("clause", "group-unresolvable", "class", r.Class, "members", fmt.Sprint(len(ms))),
					fmt.Sprintf("%s: group with %d members failed: %v", r.Op, len(ms), r.Err)})
				continue
			}
			if len(ms) == 0 && r.Vals == nil {
				out = append(out, Finding{feat("clause", "empty-group-nil"), fmt.Sprintf("%s: empty group returned nil slice", r.Op)})
			}
			okk := len(ms) == len(r.Vals)
			if okk {
				for i, v := range r.Vals {
					in := kit.InstOf(v)
					if in == nil || in.Reg != ms[i].Reg || in.Out != ms[i].Out {
						okk = false
					}
				}
			}
			if !okk {
				out = append(out, Finding{feat("clause", "group-members-wrong"),
					fmt.Sprintf("%s: want members %v in registration order, got %s", r.Op, ms, r.Label)})
			}
		}
	}
	return out
}

// ---------------------------------------------------------------- registration forms x parameter shapes

type prodTemplate struct {
	Name string
	Regs []kit.Reg // IDs and lifetimes filled in later
}

func prodTemplates() []prodTemplate {
	return []prodTemplate{
		{"plain", []kit.Reg{{Outs: []kit.Out{{T: "P0"}}}}},
		{"named", []kit.Reg{{Outs: []kit.Out{{T: "P1"}}, Name: "k1"}}},
		{"named2", []kit.Reg{{Outs: []kit.Out{{T: "P1"}}, Name: "k1"}, {Outs: []kit.Out{{T: "P1"}}, Name: "k2"}, {Outs: []kit.Out{{T: "P1"}}}}},
		{"group1", []kit.Reg{{Outs: []kit.Out{{T: "D0"}}, Group: "g"}}},
		{"group3", []kit.Reg{{Outs: []kit.Out{{T: "D0"}}, Group: "g"}, {Outs: []kit.Out{{T: "D0"}}, Group: "g"}, {Outs: []kit.Out{{T: "D0"}}, Group: "g"}}},
		{"group2x2", []kit.Reg{{Outs: []kit.Out{{T: "D0"}}, Group: "g"}, {Outs: []kit.Out{{T: "D0"}}, Group: "h"}, {Outs: []kit.Out{{T: "D0"}}, Group: "g"}}},
		{"multi", []kit.Reg{{Outs: []kit.Out{{T: "P2"}, {T: "P3"}}}}},
		{"multi-err", []kit.Reg{{Outs: []kit.Out{{T: "P2"}, {T: "P3"}}, Err: true}}},
		{"multi-named", []kit.Reg{{Outs: []kit.Out{{T: "P2"}, {T: "P3"}}, Name: "k1"}}},
		{"multi-group", []kit.Reg{{Outs: []kit.Out{{T: "P2"}, {T: "P3"}}, Group: "g"}}},
		{"resobj", []kit.Reg{{ResObj: true, Outs: []kit.Out{{T: "P4"}, {T: "P5", Key: "k2"}}}}},
		{"resobj-group", []kit.Reg{{ResObj: true, Outs: []kit.Out{{T: "P4"}, {T: "D1", Group: "h"}}}}},
		{"resobj-err", []kit.Reg{{ResObj: true, Err: true, Outs: []kit.Out{{T: "P4"}, {T: "P5", Key: "k2"}}}}},
		// one type under three identities of one result object: unkeyed, member of a group, keyed
		{"resobj-sametype", []kit.Reg{{ResObj: true, Outs: []kit.Out{{T: "P4"}, {T: "P4", Group: "h"}, {T: "P4", Key: "k2"}}}}},
		// the group field first, and two members of one group with the same type
		{"resobj-sametype-groupfirst", []kit.Reg{{ResObj: true, Outs: []kit.Out{{T: "D1", Group: "h"}, {T: "D1"}, {T: "D1", Group: "h"}}}}},
		{"alias", []kit.Reg{{Outs: []kit.Out{{T: "D2"}}, As: []string{"IA"}}}},
		{"alias2", []kit.Reg{{Outs: []kit.Out{{T: "D2"}}, As: []string{"IA", "IB"}}}},
		{"alias-named", []kit.Reg{{Outs: []kit.Out{{T: "D2"}}, As: []string{"IA"}, Name: "k1"}}},
		{"alias-group", []kit.Reg{{Outs: []kit.Out{{T: "D2"}}, As: []string{"IA"}, Group: "g"}, {Outs: []kit.Out{{T: "D3"}}, As: []string{"IA"}, Group: "g"}}},
		// two aliases in one group whose per-type member lists have DIFFERENT lengths (an earlier member exists for IA only)
		{"alias2-group-offset", []kit.Reg{{Outs: []kit.Out{{T: "D3"}}, As: []string{"IA"}, Group: "g"}, {Outs: []kit.Out{{T: "D2"}}, As: []string{"IA", "IB"}, Group: "g"}, {Outs: []kit.Out{{T: "D4"}}, As: []string{"IB"}, Group: "g"}}},
		{"alias2-named", []kit.Reg{{Outs: []kit.Out{{T: "D2"}}, As: []string{"IA", "IB"}, Name: "k1"}, {Outs: []kit.Out{{T: "D3"}}, As: []string{"IA"}}}},
		{"instance", []kit.Reg{{Kind: "instance", Outs: []kit.Out{{T: "P0"}}}}},
		// an instance VALUE behind one / two interface aliases (also keyed and grouped)
		{"instance-alias", []kit.Reg{{Kind: "instance", Outs: []kit.Out{{T: "D2"}}, As: []string{"IA"}}}},
		{"instance-alias2", []kit.Reg{{Kind: "instance", Outs: []kit.Out{{T: "D2"}}, As: []string{"IA", "IB"}}}},
		{"instance-alias2-named", []kit.Reg{{Kind: "instance", Outs: []kit.Out{{T: "D2"}}, As: []string{"IA", "IB"}, Name: "k1"}}},
		{"instance-alias2-group", []kit.Reg{{Kind: "instance", Outs: []kit.Out{{T: "D3"}}, As: []string{"IA"}, Group: "g"}, {Kind: "instance", Outs: []kit.Out{{T: "D2"}}, As: []string{"IA", "IB"}, Group: "g"}}},
		{"instance-named", []kit.Reg{{Kind: "instance", Outs: []kit.Out{{T: "P1"}}, Name: "k1"}}},
		{"instance2-named", []kit.Reg{{Kind: "instance", Outs: []kit.Out{{T: "P1"}}, Name: "k1"}, {Kind: "instance", Outs: []kit.Out{{T: "P1"}}, Name: "k2"}, {Kind: "instance", Outs: []kit.Out{{T: "P1"}}}}},
		{"instance2-group", []kit.Reg{{Kind: "instance", Outs: []kit.Out{{T: "D0"}}, Group: "g"}, {Kind: "instance", Outs: []kit.Out{{T: "D0"}}, Group: "g"}, {Kind: "instance", Outs: []kit.Out{{T: "D0"}}, Group: "h"}}},
		{"instance-group", []kit.Reg{{Kind: "instance", Outs: []kit.Out{{T: "D0"}}, Group: "g"}, {Outs: []kit.Out{{T: "D0"}}, Group: "g"}}},
		{"err-return", []kit.Reg{{Outs: []kit.Out{{T: "D3"}}, Err: true}}},
		{"chain", []kit.Reg{{Outs: []kit.Out{{T: "P0"}}, Deps: []kit.Dep{{T: "P1"}}}, {Outs: []kit.Out{{T: "P1"}}, Deps: []kit.Dep{{T: "P2"}}}, {Outs: []kit.Out{{T: "P2"}}}}},
	}
}

type formCase struct {
	Prod      []string `json:"producers"`
	Shape     string   `json:"shape"` // positional | in | inptr
	ProdLife  string   `json:"prod_life"`
	ConsLife  string   `json:"cons_life"`
	ConsFirst bool     `json:"consumer_registered_first,omitempty"`
	Reverse   bool     `json:"reversed_map_order,omitempty"`
}

func (c formCase) spec() (kit.Spec, bool) {
	tpl := map[string]prodTemplate{}
	for _, t := range prodTemplates() {
		tpl[t.Name] = t
	}
	var spec kit.Spec
	id := 0
	for _, pn := range c.Prod {
		for _, r := range tpl[pn].Regs {
			r.ID = id
			id++
			r.Life = c.ProdLife
			spec.Regs = append(spec.Regs, r)
		}
	}
	m := NewModel(&spec)
	for _, e := range m.AddErr {
		if e != "" {
			return spec, false // colliding producer combination
		}
	}
	cons := kit.Reg{ID: id, Life: c.ConsLife, Outs: []kit.Out{{T: "D5"}}}
	idents := map[Ident]bool{}
	for i := range spec.Regs {
		for _, io := range identsOf(&spec.Regs[i]) {
			k := io.Id
			if k.Group != "" {
				k = Ident{T: k.T, Group: k.Group}
			}
			if idents[k] {
				continue
			}
			idents[k] = true
			if c.Shape == "positional" {
				if k.Key == "" && k.Group == "" {
					cons.Deps = append(cons.Deps, kit.Dep{T: k.T})
				}
				continue
			}
			if c.Shape == "in-optional" {
				// every dependency is declared ONLY as an optional field
				cons.Deps = append(cons.Deps, kit.Dep{T: k.T, Key: k.Key, Group: k.Group, Opt: true})
				continue
			}
			cons.Deps = append(cons.Deps, kit.Dep{T: k.T, Key: k.Key, Group: k.Group})
			if k.Group == "" {
				// the same identity once more as an optional field
				cons.Deps = append(cons.Deps, kit.Dep{T: k.T, Key: k.Key, Opt: true})
			}
		}
	}
	if c.Shape != "positional" {
		cons.In = true
		cons.InPtr = c.Shape == "inptr"
		cons.Deps = append(cons.Deps,
			kit.Dep{T: "P5", Key: "absent", Opt: true},
			kit.Dep{T: "D4", Opt: true},
			kit.Dep{T: "D4", Group: "empty"},
			kit.Dep{T: "P0", Ignore: true},
			kit.Dep{T: "P0", Unexp: true},
			kit.Dep{T: "ctx"}, kit.Dep{T: "scope"}, kit.Dep{T: "provider"},
		)
	}
	if c.ConsFirst {
		spec.Regs = append([]kit.Reg{cons}, spec.Regs...)
	} else {
		spec.Regs = append(spec.Regs, cons)
	}
	return spec, true
}

var allPool = []string{"P0", "P1", "P2", "P3", "P4", "P5", "D0", "D1", "D2", "D3", "D4", "D5", "IA", "IB"}

func runForm(c formCase) (*Env, *Model, bool) {
	spec, ok := c.spec()
	if !ok {
		return nil, nil, false
	}
	e := NewEnv(&spec)
	m := NewModel(&spec)
	e.Build()
	if e.Prov != nil {
		e.Do(Op{Kind: "scope", Bind: "s1"})
		e.Do(Op{Kind: "get", Scope: "s1", T: "D5"})
		probeUniverse(e, "s1", allPool, []string{"", "k1", "k2"}, []string{"g", "h"})
		e.Do(Op{Kind: "get", Scope: "s1", T: "D5"})
		e.Do(Op{Kind: "close", Scope: ""})
	}
	return e, m, true
}

func c04Oracle(e *Env, m *Model) []Finding {
	var out []Finding
	for i, err := range e.AddErrs {
		if err != nil {
			out = append(out, Finding{feat("clause", "valid-registration-rejected", "form", regForm(&e.W.Spec.Regs[i])),
				fmt.Sprintf("registration %s rejected: %v", &e.W.Spec.Regs[i], err)})
		}
	}
	if e.BuildErr != nil {
		forms := map[string]bool{}
		for i := range e.W.Spec.Regs {
			forms[regForm(&e.W.Spec.Regs[i])] = true
		}
		f := feat("clause", "valid-set-not-buildable", "class", kit.ClassOf(e.BuildErr))
		out = append(out, Finding{f, fmt.Sprintf("Build failed on a valid registration set: %v", firstLine(e.BuildErr.Error()))})
		return out
	}
	out = append(out, e.WiringOracle(m)...)
	out = append(out, e.ProbeOracle(m)...)
	out = append(out, genericFindings(e, &vsched.Sched{})...)
	return out
}

func firstLine(s string) string {
	for i, c := range s {
		if c == '\n' {
			return s[:i]
		}
	}
	return s
}

func init() {
	mc.Register(&mc.Check{
		Prop:        "C04",
		Rule:        "every (function-value kind x lifetime) and every (producer-form set x consumer parameter shape x lifetimes) configuration is built on the real container, the consumer and the whole identity universe (14 types x 3 keys, 14 types x 2 groups) are resolved; plus replaced outputs: one output of a multi-return / result-object / two-alias registration removed and registered again with another constructor (3 x 3 lifetimes, either output, with and without a consumer of both identities, both request orders in two scopes): every identity must come from the constructor now registered for it; plus three-output result objects / multi-return constructors one of whose outputs is always nil (3 forms x 3 lifetimes x 3 positions, two request orders): the other outputs keep their own identities, the nil one resolves to nothing; an outcome is the canonical observation string of one configuration (distinct = different strings)",
		Assume:      []string{"reference registry model in props/model.go (written from the documentation)", "constructors are reflect.MakeFunc / handwritten functions that record their own invocation"},
		MinOutcomes: 10,
		Jobs: func(tier string) []mc.Job {
			jobs := []mc.Job{
				{Name: "fnkinds", Run: c04FnKinds},
				{Name: "forms-1", Run: func(r *mc.Report) { c04Forms(r, 1) }},
				{Name: "forms-2", Run: func(r *mc.Report) { c04Forms(r, 2) }},
				{Name: "replaced-output", Run: c04Replace},
				{Name: "nil-output", Run: c04NilOutputs},
			}
			jobs = append(jobs, rbJobs("C04", depth4(tier)+1)...)
			if tier == "thorough" {
				jobs = append(jobs, mc.Job{Name: "forms-3", Weight: 50, Run: func(r *mc.Report) { c04Forms(r, 3) }})
			}
			return jobs
		},
	})
}

func c04FnKinds(r *mc.Report) {
	run := func(c fnKindCase) {
		var e *Env
		var m *Model
		s := seqOnce(func() {
			if strings.HasPrefix(c.Kind, "reentrant") {
				e, m = runReentrant(c)
			} else {
				e, m = runFnKind(c)
			}
		})
		r.Executions++
		r.States++
		r.Transitions += int64(len(e.Results))
		r.Validated++
		r.Outcome("fnkind " + c.Kind + "/" + c.Life + " | " + e.Summary())
		fs := c04Oracle(e, m)
		fs = append(fs, e.nestedOracle(m)...)
		fs = append(fs, genericFindings(nil, s)...)
		for _, f := range fs {
			f.F["fnkind"] = c.Kind
			r.Violate(f.F, f.Detail+fmt.Sprintf("\n  function kind %s, lifetime %s", c.Kind, c.Life), c)
		}
		r.Sample(map[string]any{"case": c, "observed": e.Summary()})
	}
	if r.Only != nil {
		var c fnKindCase
		json.Unmarshal(r.Only, &c)
		run(c)
		return
	}
	for _, k := range fnKinds {
		for _, l := range []string{"singleton", "scoped", "transient"} {
			run(fnKindCase{k, l})
		}
	}
	for _, k := range reentrantKinds {
		for _, l := range []string{"scoped", "transient"} {
			run(fnKindCase{k, l})
		}
	}
}

func c04Forms(r *mc.Report, nprod int) {
	run := func(c formCase) {
		var e *Env
		var m *Model
		ok := false
		vsched.BaseReverse = c.Reverse
		s := seqOnce(func() { e, m, ok = runForm(c) })
		vsched.BaseReverse = false
		if !ok {
			return
		}
		r.Executions++
		r.States++
		r.Transitions += int64(len(e.Results))
		r.Validated++
		r.Outcome(fmt.Sprintf("forms %v/%s/%s/%s/%v | %s", c.Prod, c.Shape, c.ProdLife, c.ConsLife, c.ConsFirst, e.Summary()))
		fs := c04Oracle(e, m)
		fs = append(fs, genericFindings(nil, s)...)
		for _, f := range fs {
			f.F["quirks"] = quirks(e.W.Spec)
			r.Violate(f.F, f.Detail+fmt.Sprintf("\n  producers %v, consumer shape %s, lifetimes %s/%s", c.Prod, c.Shape, c.ProdLife, c.ConsLife), c)
		}
		if len(r.Samples) < 2 {
			r.Sample(map[string]any{"case": c, "observed": e.Summary()})
		}
	}
	forEachFormCase(r, nprod, run)
}

// forEachFormCase enumerates the (producer set x shape x lifetimes) space, or
// just the replayed case.
func forEachFormCase(r *mc.Report, nprod int, run func(c formCase)) {
	if r.Only != nil {
		var c formCase
		json.Unmarshal(r.Only, &c)
		if len(c.Prod) == nprod {
			run(c)
		}
		return
	}
	tp := prodTemplates()
	lifes := [][2]string{{"singleton", "singleton"}, {"scoped", "scoped"}, {"transient", "transient"}, {"singleton", "scoped"}, {"singleton", "transient"}, {"transient", "scoped"}}
	for _, shape := range []string{"positional", "in", "inptr", "in-optional"} {
		for _, lf := range lifes {
			if nprod == 1 {
				for _, a := range tp {
					run(formCase{Prod: []string{a.Name}, Shape: shape, ProdLife: lf[0], ConsLife: lf[1]})
					run(formCase{Prod: []string{a.Name}, Shape: shape, ProdLife: lf[0], ConsLife: lf[1], ConsFirst: true})
					run(formCase{Prod: []string{a.Name}, Shape: shape, ProdLife: lf[0], ConsLife: lf[1], ConsFirst: true, Reverse: true})
				}
			} else if nprod == 2 {
				for i, a := range tp {
					for _, b := range tp[i+1:] {
						run(formCase{Prod: []string{a.Name, b.Name}, Shape: shape, ProdLife: lf[0], ConsLife: lf[1]})
						if lf[0] == "singleton" && lf[1] == "singleton" {
							run(formCase{Prod: []string{a.Name, b.Name}, Shape: shape, ProdLife: lf[0], ConsLife: lf[1], ConsFirst: true})
						}
					}
				}
			} else {
				// three producer templates at once (thorough): In-struct consumers, uniform lifetimes
				if shape != "in" || lf[0] != lf[1] {
					continue
				}
				for i, a := range tp {
					for j := i + 1; j < len(tp); j++ {
						for _, c := range tp[j+1:] {
							run(formCase{Prod: []string{a.Name, tp[j].Name, c.Name}, Shape: shape, ProdLife: lf[0], ConsLife: lf[1]})
						}
					}
				}
			}
		}
	}
}

// ---- replaced outputs: one output of a multi-output registration is removed and registered
// again with a DIFFERENT constructor (the documented Remove + Add mock-replacement recipe)

type c04ReplaceCase struct {
	Life     string `json:"life"`
	Form     string `json:"form"`    // multi | resobj | alias2
	Replace  int    `json:"replace"` // index of the replaced output
	ReplLife string `json:"repl_life"`
	Consumer bool   `json:"consumer"` // a consumer taking both identities
}

func c04Replace(r *mc.Report) {
	run := func(c c04ReplaceCase) {
		r0 := kit.Reg{ID: 0, Life: c.Life}
		var ids []Ident
		switch c.Form {
		case "multi":
			r0.Outs = []kit.Out{{T: "P0"}, {T: "P1"}}
			ids = []Ident{{T: "P0"}, {T: "P1"}}
		case "resobj":
			r0.ResObj = true
			r0.Outs = []kit.Out{{T: "P0"}, {T: "P1", Key: "k1"}}
			ids = []Ident{{T: "P0"}, {T: "P1", Key: "k1"}}
		case "alias2":
			r0.Outs = []kit.Out{{T: "D2"}}
			r0.As = []string{"IA", "IB"}
			ids = []Ident{{T: "IA"}, {T: "IB"}}
		}
		id := ids[c.Replace]
		r1 := kit.Reg{ID: 1, Life: c.ReplLife, Outs: []kit.Out{{T: id.T}}, Name: id.Key}
		if c.Form == "alias2" {
			r1.Outs = []kit.Out{{T: "D3"}}
			r1.As = []string{id.T}
		}
		spec := kit.Spec{Regs: []kit.Reg{r0, r1}}
		if c.Consumer {
			cons := kit.Reg{ID: 2, Life: "transient", In: true, Outs: []kit.Out{{T: "D5"}}}
			for _, x := range ids {
				cons.Deps = append(cons.Deps, kit.Dep{T: x.T, Key: x.Key})
			}
			if c.Life == "scoped" || c.ReplLife == "scoped" {
				cons.Life = "scoped"
			}
			spec.Regs = append(spec.Regs, cons)
		}
		var e *Env
		var m *Model
		s := seqOnce(func() {
			e = NewEnv(&spec)
			e.Coll = godiNewCollection()
			m = &Model{Spec: &spec, Services: map[Ident]RegOut{}, Groups: map[Ident][]RegOut{}, regs: map[int]*kit.Reg{}}
			e.AddErrs = append(e.AddErrs, e.W.Add(e.Coll, &spec.Regs[0]))
			m.AddErr = append(m.AddErr, m.Add(&spec.Regs[0]))
			if id.Key == "" {
				e.Coll.Remove(kit.TypeOf(id.T))
			} else {
				e.Coll.RemoveKeyed(kit.TypeOf(id.T), id.Key)
			}
			m.Remove(id.T, id.Key)
			for i := 1; i < len(spec.Regs); i++ {
				e.AddErrs = append(e.AddErrs, e.W.Add(e.Coll, &spec.Regs[i]))
				m.AddErr = append(m.AddErr, m.Add(&spec.Regs[i]))
			}
			p, did := kit.Try(func() { e.Prov, e.BuildErr = e.Coll.Build() })
			if did {
				e.BuildPanic = p
			}
			if e.Prov != nil {
				e.Do(Op{Kind: "scope", Bind: "s1"})
				// both request orders: the kept output first / the replaced output first
				for _, x := range ids {
					e.Do(Op{Kind: "get", Scope: "s1", T: x.T, Key: x.Key})
				}
				if c.Consumer {
					e.Do(Op{Kind: "get", Scope: "s1", T: "D5"})
				}
				e.Do(Op{Kind: "scope", Bind: "s2"})
				for i := len(ids) - 1; i >= 0; i-- {
					e.Do(Op{Kind: "get", Scope: "s2", T: ids[i].T, Key: ids[i].Key})
				}
				for _, x := range ids {
					e.Do(Op{Kind: "get", Scope: "s2", T: x.T, Key: x.Key})
				}
				e.Do(Op{Kind: "close", Scope: ""})
			}
		})
		r.Executions++
		r.Validated++
		r.States++
		r.Transitions += int64(len(e.Results) + 4)
		var fs []Finding
		for i, ae := range e.AddErrs {
			if ae != nil {
				fs = append(fs, Finding{feat("clause", "valid-registration-rejected", "step", fmt.Sprint(i)), fmt.Sprintf("registration %d failed: %v", i, ae)})
			}
		}
		if e.BuildErr != nil || e.BuildPanic != nil {
			fs = append(fs, Finding{feat("clause", "valid-set-rejected"), fmt.Sprintf("Build failed: %v %v", e.BuildErr, e.BuildPanic)})
		}
		if e.Prov != nil {
			fs = append(fs, e.ProbeOracle(m)...)
			fs = append(fs, e.WiringOracle(m)...)
		}
		fs = append(fs, genericFindings(nil, s)...)
		r.Outcome(fmt.Sprintf("replace %s/%s out%d by %s consumer=%v | %s", c.Form, c.Life, c.Replace, c.ReplLife, c.Consumer, e.Summary()))
		for _, f := range fs {
			f.F["fnkind"] = "replaced-output"
			r.Violate(f.F, f.Detail+fmt.Sprintf("\n  %s %s registration, output %d (%s) removed and registered again (%s) with another constructor", c.Life, c.Form, c.Replace, id, c.ReplLife), c)
		}
	}
	if r.Only != nil {
		var c c04ReplaceCase
		if json.Unmarshal(r.Only, &c) == nil && c.Form != "" {
			run(c)
		}
		return
	}
	for _, life := range []string{"singleton", "scoped", "transient"} {
		for _, form := range []string{"multi", "resobj", "alias2"} {
			for rep := 0; rep < 2; rep++ {
				for _, rl := range []string{"singleton", "scoped", "transient"} {
					for _, cons := range []bool{false, true} {
						run(c04ReplaceCase{Life: life, Form: form, Replace: rep, ReplLife: rl, Consumer: cons})
					}
				}
			}
		}
	}
}

// ---- result objects / multiple returns with a nil output: the remaining outputs keep THEIR identities

type c04NilCase struct {
	Life string `json:"life"`
	Form string `json:"form"` // resobj | resobj-keys | multi
	Nil  int    `json:"nil"`  // index of the output the constructor leaves nil
}

func c04NilOutputs(r *mc.Report) {
	run := func(c c04NilCase) {
		r0 := kit.Reg{ID: 0, Life: c.Life}
		var ids []Ident
		switch c.Form {
		case "resobj":
			r0.ResObj = true
			r0.Outs = []kit.Out{{T: "P0"}, {T: "P1"}, {T: "P2"}}
			ids = []Ident{{T: "P0"}, {T: "P1"}, {T: "P2"}}
		case "resobj-keys":
			// one type under three keys: nothing but the field position / name tells the outputs apart
			r0.ResObj = true
			r0.Outs = []kit.Out{{T: "D1", Key: "k1"}, {T: "D1", Key: "k2"}, {T: "D1"}}
			ids = []Ident{{T: "D1", Key: "k1"}, {T: "D1", Key: "k2"}, {T: "D1"}}
		case "multi":
			r0.Outs = []kit.Out{{T: "P0"}, {T: "P1"}, {T: "P2"}}
			ids = []Ident{{T: "P0"}, {T: "P1"}, {T: "P2"}}
		}
		spec := kit.Spec{Regs: []kit.Reg{r0}}
		// a consumer of the last non-nil output
		last := len(ids) - 1
		if c.Nil == last {
			last--
		}
		consLife := "transient"
		if c.Life == "scoped" {
			consLife = "scoped"
		}
		spec.Regs = append(spec.Regs, kit.Reg{ID: 1, Life: consLife, In: true, Outs: []kit.Out{{T: "D5"}}, Deps: []kit.Dep{{T: ids[last].T, Key: ids[last].Key}}})
		var e *Env
		s := seqOnce(func() {
			e = NewEnv(&spec)
			e.W.Faults["0:*"] = fmt.Sprintf("nil:%d", c.Nil)
			e.Build()
			if e.Prov == nil {
				return
			}
			for _, sn := range []string{"s1", "s2"} {
				e.Do(Op{Kind: "scope", Bind: sn})
				order := []int{0, 1, 2}
				if sn == "s2" {
					order = []int{2, 1, 0}
				}
				for _, i := range order {
					e.Do(Op{Kind: "get", Scope: sn, T: ids[i].T, Key: ids[i].Key})
				}
				e.Do(Op{Kind: "get", Scope: sn, T: "D5"})
				for _, i := range order {
					e.Do(Op{Kind: "get", Scope: sn, T: ids[i].T, Key: ids[i].Key})
				}
			}
			e.Do(Op{Kind: "close", Scope: ""})
		})
		r.Executions++
		r.Validated++
		r.States++
		r.Transitions += int64(len(e.Results) + 2)
		var fs []Finding
		if e.BuildPanic != nil {
			fs = append(fs, Finding{feat("clause", "panic", "op", "build"), fmt.Sprint(e.BuildPanic)})
		}
		// (a singleton registration with a nil output may legitimately fail to build: not judged here)
		for _, rr := range e.Results {
			if rr.Op.Kind != "get" || rr.Skipped {
				continue
			}
			if rr.Panic != nil {
				fs = append(fs, Finding{feat("clause", "panic", "op", "get"), fmt.Sprintf("%s panicked: %v", rr.Op, rr.Panic)})
				continue
			}
			if rr.Op.T == "D5" {
				continue
			}
			idx := -1
			for i, x := range ids {
				if x.T == rr.Op.T && x.Key == rr.Op.Key {
					idx = i
				}
			}
			in := kit.InstOf(rr.Val)
			if in == nil {
				continue // an error or a typed nil: the nil output is simply not available
			}
			if in.Reg != 0 || in.Out != idx {
				what := "another output"
				if idx == c.Nil {
					what = "another output although the constructor left this one nil"
				}
				fs = append(fs, Finding{feat("clause", "wrong-producer", "form", regForm(&spec.Regs[0]), "fnkind", "nil-output"),
					fmt.Sprintf("%s: identity %s (output %d) resolved to %s - %s", rr.Op, ids[idx], idx, in.Label(), what)})
			}
		}
		// the consumer of a non-nil output must be wired to exactly that output
		for _, cl := range e.W.CallsOf(1) {
			for _, a := range cl.Args {
				if a.Kind == "inst" && (a.Inst.Reg != 0 || a.Inst.Out != last) {
					fs = append(fs, Finding{feat("clause", "wrong-argument", "dep", "field", "fnkind", "nil-output"),
						fmt.Sprintf("the consumer of %s (output %d) received %s", ids[last], last, a.Inst.Label())})
				}
			}
		}
		fs = append(fs, genericFindings(nil, s)...)
		r.Outcome(fmt.Sprintf("nil-output %s/%s nil=%d | %s", c.Form, c.Life, c.Nil, e.Summary()))
		for _, f := range fs {
			r.Violate(f.F, f.Detail+fmt.Sprintf("\n  %s %s registration with three outputs, output %d is always nil", c.Life, c.Form, c.Nil), c)
		}
	}
	if r.Only != nil {
		var c c04NilCase
		if json.Unmarshal(r.Only, &c) == nil && c.Form != "" && c.Life != "" && c.Nil >= 0 {
			run(c)
		}
		return
	}
	for _, life := range []string{"scoped", "transient", "singleton"} {
		for _, form := range []string{"resobj", "resobj-keys", "multi"} {
			for n := 0; n < 3; n++ {
				run(c04NilCase{Life: life, Form: form, Nil: n})
			}
		}
	}
}
