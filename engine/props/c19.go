package props

import (
	"encoding/json"
	"fmt"
	"reflect"
	"sort"
	"strings"

	"github.com/junioryono/godi/v4/internal/graph"
	"github.com/junioryono/godi/v4/internal/reflection"
	"github.com/junioryono/godi/v4/verifmc/kit"
	"github.com/junioryono/godi/v4/verifmc/mc"
)

// C19 — the dependency graph always agrees with a plain digraph model.
// C05 / C06 (graph component parts) reuse the node pool and the model.

type gnode struct {
	T     string
	Key   string
	Group string
}

var gPool4 = []gnode{{T: "P0"}, {T: "P0", Key: "k"}, {T: "P1", Group: "g"}, {T: "P1"}}
var gPool5 = []gnode{{T: "P0"}, {T: "P0", Key: "k"}, {T: "P1", Group: "g"}, {T: "P1"}, {T: "P2"}}

func (n gnode) nodeKey() graph.NodeKey {
	nk := graph.NodeKey{Type: kit.TypeOf(n.T), Group: n.Group}
	if n.Key != "" {
		nk.Key = n.Key
	}
	return nk
}

func (n gnode) keyAny() any {
	if n.Key == "" {
		return nil
	}
	return n.Key
}

type gprov struct {
	n    gnode
	deps []gnode
}

func (p *gprov) GetType() reflect.Type { return kit.TypeOf(p.n.T) }
func (p *gprov) GetKey() any           { return p.n.keyAny() }
func (p *gprov) GetGroup() string      { return p.n.Group }
func (p *gprov) GetDependencies() []*reflection.Dependency {
	out := make([]*reflection.Dependency, len(p.deps))
	for i, d := range p.deps {
		out[i] = &reflection.Dependency{Type: kit.TypeOf(d.T), Key: d.keyAny(), Group: d.Group, Index: i}
	}
	return out
}

// ---- reference digraph

type digraph struct {
	nodes map[int]bool  // pool index -> present
	prov  map[int]bool  // has a provider (was added, not only referenced)
	out   map[int][]int // ordered out-edges
}

func newDigraph() *digraph {
	return &digraph{nodes: map[int]bool{}, prov: map[int]bool{}, out: map[int][]int{}}
}

func (g *digraph) clone() *digraph {
	c := newDigraph()
	for k, v := range g.nodes {
		c.nodes[k] = v
	}
	for k, v := range g.prov {
		c.prov[k] = v
	}
	for k, v := range g.out {
		c.out[k] = append([]int{}, v...)
	}
	return c
}

func (g *digraph) add(n int, deps []int) {
	g.nodes[n] = true
	g.prov[n] = true
	for _, d := range deps {
		g.nodes[d] = true
	}
	g.out[n] = append([]int{}, deps...)
}

func (g *digraph) remove(n int) {
	if !g.nodes[n] {
		return
	}
	delete(g.nodes, n)
	delete(g.prov, n)
	delete(g.out, n)
	for k, l := range g.out {
		var f []int
		for _, x := range l {
			if x != n {
				f = append(f, x)
			}
		}
		g.out[k] = f
	}
}

func (g *digraph) cyclic() bool {
	col := map[int]int{}
	var dfs func(n int) bool
	dfs = func(n int) bool {
		col[n] = 1
		for _, t := range g.out[n] {
			if col[t] == 1 || (col[t] == 0 && dfs(t)) {
				return true
			}
		}
		col[n] = 2
		return false
	}
	for n := range g.nodes {
		if col[n] == 0 && dfs(n) {
			return true
		}
	}
	return false
}

func (g *digraph) reach(n int) map[int]bool {
	seen := map[int]bool{}
	var dfs func(x int)
	dfs = func(x int) {
		for _, t := range g.out[x] {
			if !seen[t] {
				seen[t] = true
				dfs(t)
			}
		}
	}
	dfs(n)
	return seen
}

func (g *digraph) String() string {
	var ns []int
	for n := range g.nodes {
		ns = append(ns, n)
	}
	sort.Ints(ns)
	var b strings.Builder
	for _, n := range ns {
		p := ""
		if g.prov[n] {
			p = "*"
		}
		fmt.Fprintf(&b, "%d%s->%v;", n, p, g.out[n])
	}
	return b.String()
}

func (g *digraph) depth(n int, memo map[int]int) int {
	if d, ok := memo[n]; ok {
		return d
	}
	d := 0
	for _, t := range g.out[n] {
		if x := g.depth(t, memo) + 1; x > d {
			d = x
		}
	}
	memo[n] = d
	return d
}

// ---- operations

type gop struct {
	Kind string `json:"k"` // add | defer | remove | clear | detect
	N    int    `json:"n"`
	Deps []int  `json:"deps,omitempty"`
}

func (o gop) String() string {
	switch o.Kind {
	case "add", "defer":
		return fmt.Sprintf("%s(%d,%v)", o.Kind, o.N, o.Deps)
	case "remove":
		return fmt.Sprintf("remove(%d)", o.N)
	}
	return o.Kind
}

type gstate struct {
	g          *graph.DependencyGraph
	m          *digraph
	checkPaths bool // also verify reported cycle paths (C05's subject)
	diverged   bool // the real graph no longer corresponds to the model (root cause already reported)
	hung       bool // a query did not terminate: the process must not continue with this graph
	pending    bool // deferred adds not yet completed by DetectCycles
	pool       []gnode
	rejected   int
}

func newGState(pool []gnode) *gstate {
	return &gstate{g: graph.NewDependencyGraph(), m: newDigraph(), pool: pool}
}

func poolIdx(pool []gnode, nk graph.NodeKey) int {
	for i, n := range pool {
		if n.nodeKey() == nk {
			return i
		}
	}
	return -1
}

// apply performs op on the real graph and on the model and returns the
// findings of the operation itself (verdict mismatch, rollback not exact).
func (st *gstate) apply(o gop) []Finding {
	var out []Finding
	mkProv := func() *gprov {
		p := &gprov{n: st.pool[o.N]}
		for _, d := range o.Deps {
			p.deps = append(p.deps, st.pool[d])
		}
		return p
	}
	switch o.Kind {
	case "add":
		before := ""
		if !st.pending {
			before = structDump(st.g)
		}
		trial := st.m.clone()
		trial.add(o.N, o.Deps)
		wantReject := trial.cyclic()
		err := st.g.AddProvider(mkProv())
		if (err != nil) != wantReject {
			out = append(out, Finding{feat("clause", "add-verdict", "want-reject", fmt.Sprint(wantReject)),
				fmt.Sprintf("AddProvider(%d,%v) on %s: returned %v, model says cyclic=%v", o.N, o.Deps, st.m, err, wantReject)})
		}
		if err != nil {
			st.rejected++
			if ce, ok := err.(*graph.CircularDependencyError); ok && wantReject && st.checkPaths {
				out = append(out, checkCyclePath(st.pool, trial, ce, "graph")...)
			}
			if !st.pending {
				after := structDump(st.g)
				if after != before {
					existed := "new"
					if st.m.nodes[o.N] {
						existed = "existing"
					}
					st.diverged = true
					out = append(out, Finding{feat("clause", "rejected-add-mutated", "node", existed),
						fmt.Sprintf("rejected AddProvider(%d,%v) on %s changed the graph:\n  before %s\n  after  %s", o.N, o.Deps, st.m, before, after)})
				}
			}
		} else if !wantReject {
			st.m = trial
		}
		if err == nil && wantReject {
			st.m = trial // follow the implementation so that later steps stay comparable
		}
	case "defer":
		if err := st.g.AddProviderDeferred(mkProv()); err != nil {
			out = append(out, Finding{feat("clause", "deferred-add-error"), err.Error()})
		}
		st.m.add(o.N, o.Deps)
		st.pending = true
	case "remove":
		n := st.pool[o.N]
		st.g.RemoveProvider(kit.TypeOf(n.T), n.keyAny(), n.Group)
		if st.m.nodes[o.N] {
			st.pending = false // RemoveProvider of an existing node recomputes degrees
		}
		st.m.remove(o.N)
	case "clear":
		st.g.Clear()
		st.m = newDigraph()
		st.pending = false
	case "detect":
		err := st.g.DetectCycles()
		st.pending = false
		if (err != nil) != st.m.cyclic() {
			out = append(out, Finding{feat("clause", "detect-verdict", "want-cycle", fmt.Sprint(st.m.cyclic())),
				fmt.Sprintf("DetectCycles on %s returned %v", st.m, err)})
		} else if ce, ok := err.(*graph.CircularDependencyError); ok && st.checkPaths {
			out = append(out, checkCyclePath(st.pool, st.m, ce, "graph")...)
		}
	}
	return out
}

// checkCyclePath verifies that the reported Path is a real cycle of g.
func checkCyclePath(pool []gnode, g *digraph, ce *graph.CircularDependencyError, comp string) []Finding {
	var idx []int
	for _, nk := range ce.Path {
		i := poolIdx(pool, nk)
		if i < 0 {
			return []Finding{{feat("clause", "path-unknown-node", "component", comp), fmt.Sprintf("cycle path %v contains a node outside the graph", ce.Path)}}
		}
		idx = append(idx, i)
	}
	bad := func(why string) []Finding {
		return []Finding{{feat("clause", "path-not-a-cycle", "component", comp), fmt.Sprintf("reported cycle path %v on %s: %s", idx, g, why)}}
	}
	if len(idx) == 0 {
		return bad("empty path")
	}
	// accept both "a b c" and "a b c a"
	if len(idx) > 1 && idx[0] == idx[len(idx)-1] {
		idx = idx[:len(idx)-1]
	}
	has := func(a, b int) bool {
		for _, t := range g.out[a] {
			if t == b {
				return true
			}
		}
		return false
	}
	for i := range idx {
		a, b := idx[i], idx[(i+1)%len(idx)]
		if !has(a, b) {
			return bad(fmt.Sprintf("%d -> %d is not a dependency edge", a, b))
		}
	}
	return nil
}

// queries issues every query (in the given order variant) and compares with the model.
func (st *gstate) queries(variant int) []Finding {
	var out []Finding
	g, m := st.g, st.m
	bad := func(q, detail string) {
		out = append(out, Finding{feat("clause", "query-mismatch", "query", q), fmt.Sprintf("%s on %s: %s", q, m, detail)})
	}
	setOf := func(keys []graph.NodeKey) string {
		var l []int
		for _, k := range keys {
			l = append(l, poolIdx(st.pool, k))
		}
		sort.Ints(l)
		return fmt.Sprint(l)
	}
	setOfNodes := func(ns []*graph.Node) string {
		var l []int
		for _, n := range ns {
			l = append(l, poolIdx(st.pool, n.Key))
		}
		sort.Ints(l)
		return fmt.Sprint(l)
	}
	sortedInts := func(l []int) string { sort.Ints(l); return fmt.Sprint(l) }
	dedupStr := func(sorted string) string {
		f := strings.Fields(strings.Trim(sorted, "[]"))
		var o []string
		for i, x := range f {
			if i == 0 || x != f[i-1] {
				o = append(o, x)
			}
		}
		return "[" + strings.Join(o, " ") + "]"
	}
	qs := []func(){
		func() {
			if g.Size() != len(m.nodes) {
				bad("Size", fmt.Sprintf("got %d want %d", g.Size(), len(m.nodes)))
			}
		},
		func() {
			for i, n := range st.pool {
				if g.HasNode(kit.TypeOf(n.T), n.keyAny(), n.Group) != m.nodes[i] {
					bad("HasNode", fmt.Sprintf("node %d got %v", i, !m.nodes[i]))
				}
				nd := g.GetNode(kit.TypeOf(n.T), n.keyAny(), n.Group)
				if (nd != nil) != m.nodes[i] {
					bad("GetNode", fmt.Sprintf("node %d got non-nil=%v", i, nd != nil))
				} else if nd != nil && ((nd.Provider != nil) != m.prov[i] || nd.Key != n.nodeKey()) {
					bad("GetNode", fmt.Sprintf("node %d: provider set=%v want %v", i, nd.Provider != nil, m.prov[i]))
				}
			}
		},
		func() {
			for i, n := range st.pool {
				deps := g.GetDependencies(kit.TypeOf(n.T), n.keyAny(), n.Group)
				var got []int
				for _, d := range deps {
					got = append(got, poolIdx(st.pool, d))
				}
				if !m.nodes[i] {
					if deps != nil {
						bad("GetDependencies", fmt.Sprintf("absent node %d returned %v", i, got))
					}
					continue
				}
				if fmt.Sprint(got) != fmt.Sprint(m.out[i]) && !(len(got) == 0 && len(m.out[i]) == 0) {
					bad("GetDependencies", fmt.Sprintf("node %d got %v want %v", i, got, m.out[i]))
				}
			}
		},
		func() {
			if st.pending {
				return // dependents lists are recomputed by the documented cycle check
			}
			for i, n := range st.pool {
				if !m.nodes[i] {
					continue
				}
				var want []int
				for a, l := range m.out {
					for _, t := range l {
						if t == i {
							want = append(want, a)
						}
					}
				}
				// compared as sets: whether a node that lists the same dependency
				// twice is reported once or twice among the dependents is not
				// something a plain digraph decides
				got := dedupStr(setOf(g.GetDependents(kit.TypeOf(n.T), n.keyAny(), n.Group)))
				if got != dedupStr(sortedInts(want)) {
					bad("GetDependents", fmt.Sprintf("node %d got %s want %s", i, got, dedupStr(sortedInts(want))))
				}
			}
		},
		func() {
			for i, n := range st.pool {
				if !m.nodes[i] {
					continue
				}
				var want []int
				for t := range m.reach(i) {
					want = append(want, t)
				}
				got := g.GetTransitiveDependencies(kit.TypeOf(n.T), n.keyAny(), n.Group)
				gs := map[int]bool{}
				for _, k := range got {
					gs[poolIdx(st.pool, k)] = true
				}
				var gl []int
				for k := range gs {
					gl = append(gl, k)
				}
				// a node on a cycle through itself reaches itself; the component never lists the start node
				ws := map[int]bool{}
				for _, t := range want {
					if t != i {
						ws[t] = true
					}
				}
				var wl []int
				for k := range ws {
					wl = append(wl, k)
				}
				delete(gs, i)
				gl = gl[:0]
				for k := range gs {
					gl = append(gl, k)
				}
				if sortedInts(gl) != sortedInts(wl) {
					bad("GetTransitiveDependencies", fmt.Sprintf("node %d got %v want %v", i, gl, wl))
				}
			}
		},
		func() {
			if st.pending {
				return // degrees are only defined after the documented cycle check
			}
			var roots, leaves []int
			indeg := map[int]int{}
			for _, l := range m.out {
				for _, t := range l {
					indeg[t]++
				}
			}
			for n := range m.nodes {
				if indeg[n] == 0 {
					roots = append(roots, n)
				}
				if len(m.out[n]) == 0 {
					leaves = append(leaves, n)
				}
			}
			if got := setOfNodes(g.GetRoots()); got != sortedInts(roots) {
				bad("GetRoots", fmt.Sprintf("got %s want %s", got, sortedInts(roots)))
			}
			if got := setOfNodes(g.GetLeaves()); got != sortedInts(leaves) {
				bad("GetLeaves", fmt.Sprintf("got %s want %s", got, sortedInts(leaves)))
			}
		},
		func() {
			if st.pending {
				return
			}
			if g.IsAcyclic() == m.cyclic() {
				bad("IsAcyclic", fmt.Sprintf("got %v", !m.cyclic()))
			}
		},
		func() {
			if st.pending {
				return
			}
			sorted, err := g.TopologicalSort()
			if m.cyclic() {
				if err == nil {
					bad("TopologicalSort", "cyclic graph sorted without error")
				}
				return
			}
			if err != nil {
				bad("TopologicalSort", "acyclic graph: "+err.Error())
				return
			}
			out = append(out, checkTopo(st.pool, m, sorted)...)
		},
		func() {
			if st.pending || m.cyclic() {
				return
			}
			// CalculateDepths walks the dependents lists breadth-first and only terminates if
			// they are acyclic: decide that first (deterministically) instead of timing the call
			dg := newDigraph()
			for i, n := range st.pool {
				var ds []int
				for _, k := range g.GetDependents(kit.TypeOf(n.T), n.keyAny(), n.Group) {
					if j := poolIdx(st.pool, k); j >= 0 {
						ds = append(ds, j)
					}
				}
				dg.add(i, ds)
			}
			if dg.cyclic() {
				st.hung = true
				bad("CalculateDepths", "would not terminate: the dependents lists of this acyclic graph contain a cycle")
				return
			}
			g.CalculateDepths()
			memo := map[int]int{}
			for i, n := range st.pool {
				if !m.nodes[i] {
					continue
				}
				nd := g.GetNode(kit.TypeOf(n.T), n.keyAny(), n.Group)
				if nd == nil {
					continue
				}
				if nd.Depth != m.depth(i, memo) {
					bad("CalculateDepths", fmt.Sprintf("node %d depth %d want %d", i, nd.Depth, m.depth(i, memo)))
				}
			}
		},
	}
	order := make([]int, len(qs))
	for i := range order {
		order[i] = i
	}
	switch variant {
	case 1:
		for i, j := 0, len(order)-1; i < j; i, j = i+1, j-1 {
			order[i], order[j] = order[j], order[i]
		}
	case 2:
		order = append(order[len(order)/2:], order[:len(order)/2]...)
	}
	for _, i := range order {
		qs[i]()
	}
	return out
}

func checkTopo(pool []gnode, m *digraph, sorted []*graph.Node) []Finding {
	pos := map[int]int{}
	for p, n := range sorted {
		if n == nil {
			return []Finding{{feat("clause", "topo-nil-node"), "nil node in topological order"}}
		}
		i := poolIdx(pool, n.Key)
		if _, dup := pos[i]; dup {
			return []Finding{{feat("clause", "topo-duplicate"), fmt.Sprintf("node %d listed twice on %s", i, m)}}
		}
		pos[i] = p
	}
	if len(pos) != len(m.nodes) {
		return []Finding{{feat("clause", "topo-incomplete"), fmt.Sprintf("order lists %d of %d nodes on %s", len(pos), len(m.nodes), m)}}
	}
	for a, l := range m.out {
		for _, t := range l {
			if pos[t] >= pos[a] {
				return []Finding{{feat("clause", "topo-order"), fmt.Sprintf("node %d listed before its dependency %d on %s", a, t, m)}}
			}
		}
	}
	return nil
}

// graphDump renders the observable state of the real graph: the full deep
// dump, except that a cache whose dirty flag is set is treated as empty (its
// contents cannot influence any later answer).
func graphDump(g *graph.DependencyGraph) string {
	v := reflect.ValueOf(g).Elem()
	dirtyC, dirtyS := v.FieldByName("cycleCacheDirty"), v.FieldByName("sortedNodesDirty")
	var mask []string
	if dirtyC.IsValid() && dirtyC.Kind() == reflect.Bool && dirtyC.Bool() {
		mask = append(mask, "DependencyGraph.cycleCache")
	}
	if dirtyS.IsValid() && dirtyS.Kind() == reflect.Bool && dirtyS.Bool() {
		mask = append(mask, "DependencyGraph.sortedNodes")
	}
	// traversal scratch flags are reset before every use
	mask = append(mask, "Node.Visited", "Node.Visiting")
	return kit.Dump(g, mask...)
}

// structDump is the deep dump without the caches: what "the graph exactly as
// it was" refers to (stale caches are caught by the query comparison instead).
func structDump(g *graph.DependencyGraph) string {
	// structural rules instead of field names, so that renaming a cache does not matter:
	// bools (dirty flags, traversal marks) and bool-valued maps (cycle cache) are masked,
	// slices of node pointers (sorted-order cache) are masked, and lists of node keys are
	// compared as multisets (dependents are unordered; the order of dependencies is checked by
	// the GetDependencies query).
	d := kit.NewDumper()
	d.MaskBools, d.MaskPtrSlices, d.SortStructSlices = true, true, true
	// of the graph object itself only its containers (node table, adjacency lists): a cache kept
	// as scalars (e.g. "cycle found" + "at node") is as unobservable behind its dirty flag as one
	// kept in a map
	d.RootContainersOnly = true
	d.SkipType = map[string]bool{"RWMutex": true, "Mutex": true}
	return d.Render(g)
}

// ---- explicit-state search

func gAlphabet(npool, maxDeps int) []gop {
	var depLists [][]int
	depLists = append(depLists, nil)
	for a := 0; a < npool; a++ {
		depLists = append(depLists, []int{a})
	}
	if maxDeps >= 2 {
		for a := 0; a < npool; a++ {
			for b := 0; b < npool; b++ {
				// a == b: a provider that names the same dependency twice
				// (two parameters of one type) is a multi-edge
				depLists = append(depLists, []int{a, b})
			}
		}
	}
	var ops []gop
	for n := 0; n < npool; n++ {
		for _, d := range depLists {
			ops = append(ops, gop{Kind: "add", N: n, Deps: d})
		}
	}
	for n := 0; n < npool; n++ {
		for _, d := range depLists {
			ops = append(ops, gop{Kind: "defer", N: n, Deps: d})
		}
	}
	for n := 0; n < npool; n++ {
		ops = append(ops, gop{Kind: "remove", N: n})
	}
	ops = append(ops, gop{Kind: "clear"}, gop{Kind: "detect"})
	return ops
}

type c19Case struct {
	Pool int   `json:"pool"`
	Hist []gop `json:"history"`
}

// replayG rebuilds the state reached by hist on a fresh real graph; findings
// are only collected for the last operation and the queries after it.
func replayG(pool []gnode, hist []gop) (*gstate, []Finding) {
	st := newGState(pool)
	var fs []Finding
	for i, o := range hist {
		f := st.apply(o)
		if i == len(hist)-1 {
			fs = f
		} else if !st.diverged && !st.hung {
			// queries run after every operation (this is what fills the caches that a
			// later mutation must invalidate); their answers were compared when this
			// prefix was the end of a history
			st.queries(i % 3)
		}
	}
	if st.diverged {
		return st, fs
	}
	fs = append(fs, st.queries(len(hist)%3)...)
	if !st.hung {
		fs = append(fs, st.queries((len(hist)+1)%3)...)
	}
	return st, fs
}

func c19Search(r *mc.Report, npool, maxDeps, maxStates int, shard, nshards int) {
	pool := gPool4[:npool]
	if r.Only != nil {
		var c c19Case
		if json.Unmarshal(r.Only, &c) != nil || c.Pool != npool || len(c.Hist) == 0 {
			return
		}
		_, fs := replayG(pool, c.Hist)
		r.Executions++
		for _, f := range fs {
			r.Violate(f.F, f.Detail, c)
		}
		return
	}
	ops := gAlphabet(npool, maxDeps)
	type item struct {
		hist    []gop
		pending bool
		cyclic  bool
	}
	seen := map[string]bool{}
	st0, _ := replayG(pool, nil)
	seen[st0.m.String()+"|"+graphDump(st0.g)+fmt.Sprint(st0.pending)] = true
	frontier := []item{{nil, false, false}}
	depth := 0
	for len(frontier) > 0 {
		var next []item
		for fi, it := range frontier {
			if nshards > 1 && depth == 1 && fi%nshards != shard {
				continue
			}
			for _, o := range ops {
				// immediate adds are defined on graphs whose deferred adds have been
				// completed by the cycle check and which are acyclic
				if o.Kind == "add" && (it.pending || it.cyclic) {
					continue
				}
				h := append(append([]gop{}, it.hist...), o)
				st, fs := replayG(pool, h)
				r.Executions++
				r.Validated++
				r.Transitions++
				for _, f := range fs {
					hs := make([]string, len(h))
					for i, x := range h {
						hs[i] = x.String()
					}
					f.F["last-op"] = o.Kind
					r.Violate(f.F, f.Detail+"\n  history: "+strings.Join(hs, " "), c19Case{Pool: npool, Hist: h})
				}
				if st.hung {
					// the root cause has been reported; do not expand this state
					continue
				}
				if st.diverged {
					continue
				}
				key := st.m.String() + "|" + graphDump(st.g) + fmt.Sprint(st.pending)
				if seen[key] {
					continue
				}
				seen[key] = true
				if len(seen) >= maxStates || (!r.Deadline.IsZero() && r.Executions%512 == 0 && timeNow().After(r.Deadline)) {
					r.Capped = true
					r.CapNotes = append(r.CapNotes, fmt.Sprintf("c19 pool=%d: state cap %d reached at depth %d", npool, len(seen), depth+1))
					r.States += int64(len(seen))
					return
				}
				next = append(next, item{h, st.pending, st.m.cyclic()})
				if len(r.Samples) < 2 && len(h) == 3 {
					r.Sample(map[string]any{"history": h, "model": st.m.String()})
				}
			}
		}
		frontier = next
		depth++
	}
	r.States += int64(len(seen))
	r.Outcome(fmt.Sprintf("pool=%d closed at depth %d", npool, depth))
	r.Extra[fmt.Sprintf("closure_depth_pool%d", npool)] = int64(depth)
}

func init() {
	mc.Register(&mc.Check{
		Prop:   "C19",
		Rule:   "explicit-state BFS directly on internal/graph: alphabet {AddProvider(n, ordered deps of length<=2 over the pool, the same node twice included), AddProviderDeferred, RemoveProvider(n), Clear, DetectCycles}, node pool of 3 (quick) / 4 (thorough) identities mixing type, key and group; successors by replay on a fresh real graph; states de-duplicated by (model digraph, reflective deep dump of the real graph object incl. caches, dirty flags, degree fields), searched to closure or the state cap; after every transition every query is issued twice in two different orders and compared with the model; a rejected add must leave the deep dump unchanged. Plus every DAG on 4 and on 5 nodes (all 64 / 1024 edge sets respecting one topological order x all 24 / 120 relabellings of the nodes), built deferred+DetectCycles and immediately, from the canonical and the reversed base map order, with every query (depths, transitive dependencies, roots / leaves, topological order) compared with the model. distinct = distinct canonical states.",
		Assume: []string{"roots/leaves are defined by the component's in/out-degree convention (roots: no dependents, leaves: no dependencies)", "queries that read degree fields are only compared after the documented DetectCycles following deferred adds"},
		Jobs: func(tier string) []mc.Job {
			dags := func() []mc.Job {
				var js []mc.Job
				js = append(js, mc.Job{Name: "c19/dags4", Weight: 3, Run: func(r *mc.Report) { c19DAGs(r, 4, 0, 1) }})
				for sh := 0; sh < 16; sh++ {
					sh := sh
					js = append(js, mc.Job{Name: fmt.Sprintf("c19/dags5#%d", sh), Weight: 6, Run: func(r *mc.Report) { c19DAGs(r, 5, sh, 16) }})
				}
				return js
			}
			if tier == "thorough" {
				var jobs []mc.Job
				jobs = append(jobs, dags()...)
				jobs = append(jobs, mc.Job{Name: "c19/pool3", Run: func(r *mc.Report) { c19Search(r, 3, 2, 400000, 0, 1) }})
				for sh := 0; sh < 16; sh++ {
					sh := sh
					jobs = append(jobs, mc.Job{Name: fmt.Sprintf("c19/pool4#%d", sh), Weight: 10, Run: func(r *mc.Report) { c19Search(r, 4, 2, 150000, sh, 16) }})
				}
				return jobs
			}
			jobs := []mc.Job{{Name: "c19/pool2", Weight: 20, Run: func(r *mc.Report) { c19Search(r, 2, 2, 200000, 0, 1) }}}
			jobs = append(jobs, dags()...)
			for sh := 0; sh < 10; sh++ {
				sh := sh
				jobs = append(jobs, mc.Job{Name: fmt.Sprintf("c19/pool3#%d", sh), Weight: 10, Run: func(r *mc.Report) { c19Search(r, 3, 1, 25000, sh, 10) }})
			}
			for sh := 0; sh < 5; sh++ {
				sh := sh
				jobs = append(jobs, mc.Job{Name: fmt.Sprintf("c19/pool3-2deps#%d", sh), Weight: 5, Run: func(r *mc.Report) { c19Search(r, 3, 2, 6000, sh, 5) }})
			}
			return jobs
		},
	})
}
