package props

import (
	"fmt"
	"sort"
	"strings"

	"github.com/junioryono/godi/v4/verifmc/kit"
)

// Finding is one oracle failure with the feature vector used for
// known-finding matching.
type Finding struct {
	F      map[string]string
	Detail string
}

func feat(kv ...string) map[string]string {
	m := map[string]string{}
	for i := 0; i+1 < len(kv); i += 2 {
		m[kv[i]] = kv[i+1]
	}
	return m
}

func (e *Env) reg(id int) *kit.Reg {
	for i := range e.W.Spec.Regs {
		if e.W.Spec.Regs[i].ID == id {
			return &e.W.Spec.Regs[i]
		}
	}
	return nil
}

func regForm(r *kit.Reg) string {
	switch {
	case r.Kind == "instance":
		return "instance"
	case r.Kind == "void" || r.Kind == "voiderr":
		return "initializer"
	case r.ResObj:
		for _, o := range r.Outs {
			if o.Group != "" {
				return "resobj-group"
			}
		}
		return "resobj"
	case len(r.Outs) > 1 && r.Name != "":
		return "multi-named"
	case len(r.Outs) > 1 && r.Group != "":
		return "multi-group"
	case len(r.Outs) > 1:
		return "multi"
	case len(r.As) > 1:
		return "multi-alias"
	case len(r.As) == 1:
		return "alias"
	case r.Group != "":
		return "group"
	case r.Name != "":
		return "keyed"
	}
	return "plain"
}

// quirks lists the registration forms of a spec that are known to be handled
// specially (used only to make violation features specific).
func quirks(spec *kit.Spec) string {
	set := map[string]bool{}
	for i := range spec.Regs {
		switch f := regForm(&spec.Regs[i]); f {
		case "multi-named", "multi-group", "resobj-group":
			set[f] = true
		}
	}
	if len(set) == 0 {
		return "none"
	}
	var l []string
	for k := range set {
		l = append(l, k)
	}
	sort.Strings(l)
	return strings.Join(l, "+")
}

// handout is one place an instance was given to user code.
type handout struct {
	Where string
	Scope string // scope the receiving operation / constructor ran in
	Res   *Res
	Call  *kit.Call
}

func argInsts(a kit.Arg, f func(*kit.Inst)) {
	switch a.Kind {
	case "inst":
		f(a.Inst)
	case "list":
		for _, x := range a.List {
			argInsts(x, f)
		}
	}
}

func (e *Env) handouts() map[*kit.Inst][]handout {
	m := map[*kit.Inst][]handout{}
	for i, r := range e.Results {
		if r.Skipped || r.Err != nil || r.Panic != nil {
			continue
		}
		if r.Op.Kind == "get" {
			if in := kit.InstOf(r.Val); in != nil {
				m[in] = append(m[in], handout{Where: fmt.Sprintf("result of op %d %s", i, r.Op), Scope: r.Op.Scope, Res: r})
			}
		}
		if r.Op.Kind == "group" {
			for _, v := range r.Vals {
				if in := kit.InstOf(v); in != nil {
					m[in] = append(m[in], handout{Where: fmt.Sprintf("result of op %d %s", i, r.Op), Scope: r.Op.Scope, Res: r})
				}
			}
		}
	}
	for _, c := range e.W.Calls {
		for _, a := range c.Args {
			argInsts(a, func(in *kit.Inst) {
				m[in] = append(m[in], handout{Where: fmt.Sprintf("argument of r%d#%d", c.Reg, c.Serial), Scope: e.ScopeOfCall(c), Call: c})
			})
		}
		for _, a := range c.Nested {
			// what the constructor looked up itself through its injected Scope / Provider
			// (scoped instances left out: the scope such a lookup belongs to is not recorded)
			argInsts(a, func(in *kit.Inst) {
				if r := e.reg(in.Reg); r == nil || r.Life == "scoped" {
					return
				}
				m[in] = append(m[in], handout{Where: fmt.Sprintf("lookup made by r%d#%d", c.Reg, c.Serial), Scope: e.ScopeOfCall(c), Call: c})
			})
		}
	}
	return m
}

// normScope maps the scope a call/op ran in to the owning scope name:
// "#build" and "" (provider-level resolution) both mean the root scope.
func normScope(s string) string {
	if s == "#build" || s == "" {
		return "#root"
	}
	return s
}

// LifetimeOracle checks the lifetime rules (C01-C03 invariants) on everything
// the execution observed.
func (e *Env) LifetimeOracle() []Finding {
	var out []Finding
	if e.Prov == nil {
		return nil
	}
	ho := e.handouts()
	nThreads := map[int]bool{}
	for _, r := range e.Results {
		nThreads[r.Thread] = true
	}
	for i := range e.W.Spec.Regs {
		r := &e.W.Spec.Regs[i]
		if r.Kind == "instance" {
			continue
		}
		calls := e.W.CallsOf(r.ID)
		form := regForm(r)
		switch r.Life {
		case "singleton":
			okc := 0
			for _, c := range calls {
				if c.Outcome == "ok" || c.Outcome == "nil" {
					okc++
				}
				if e.ScopeOfCall(c) != "#build" {
					out = append(out, Finding{feat("clause", "singleton-constructed-after-build", "form", form),
						fmt.Sprintf("singleton %s constructed outside Build (in %s)", r, e.ScopeOfCall(c))})
				}
			}
			if len(calls) != 1 || okc != 1 {
				out = append(out, Finding{feat("clause", "singleton-ctor-count", "form", form, "count", fmt.Sprint(len(calls))),
					fmt.Sprintf("singleton %s: constructor ran %d times (%d ok), want exactly 1", r, len(calls), okc)})
			}
		case "scoped":
			if r.Kind == "void" || r.Kind == "voiderr" {
				// initializers: exactly once per created scope, at creation
				per := map[string]int{}
				for _, c := range calls {
					per[normScope(e.ScopeOfCall(c))]++
				}
				want := map[string]bool{"#root": true}
				for name, s := range e.Scopes {
					if s.CreatedBy != nil && s.CreatedBy.Panic == nil {
						want[name] = true
					}
				}
				for s := range want {
					if per[s] != 1 {
						// a scope whose creation failed in an *earlier* initializer never reaches later ones
						if sr := e.Scopes[s]; sr != nil && sr.S == nil && per[s] == 0 {
							continue
						}
						out = append(out, Finding{feat("clause", "initializer-count", "count", fmt.Sprint(per[s])),
							fmt.Sprintf("scope initializer %s ran %d times for scope %s, want 1", r, per[s], s)})
					}
				}
				for s, n := range per {
					if strings.HasSuffix(s, "/child") {
						// a scope created by user code inside a constructor: its initializers run once, too
						if n != 1 {
							out = append(out, Finding{feat("clause", "initializer-count", "count", fmt.Sprint(n)),
								fmt.Sprintf("scope initializer %s ran %d times for the scope a constructor created (%s), want 1", r, n, s)})
						}
						continue
					}
					if !want[s] && n > 0 {
						out = append(out, Finding{feat("clause", "initializer-outside-creation"),
							fmt.Sprintf("scope initializer %s ran %d times in %s which is not a scope creation", r, n, s)})
					}
				}
				continue
			}
			per := map[string][]*kit.Call{}
			for _, c := range calls {
				if c.Outcome == "ok" {
					s := normScope(e.ScopeOfCall(c))
					per[s] = append(per[s], c)
				}
			}
			for s, cs := range per {
				if len(cs) > 1 {
					out = append(out, Finding{feat("clause", "double-construct", "form", form, "threads", fmt.Sprint(len(nThreads))),
						fmt.Sprintf("scoped %s constructed %d times in scope %s", r, len(cs), s)})
				}
			}
		}
	}
	// per-instance hand-out rules
	type sk struct {
		reg, out int
		scope    string
	}
	seen := map[sk]*kit.Inst{}
	insts := make([]*kit.Inst, 0, len(ho))
	for in := range ho {
		insts = append(insts, in)
	}
	sort.Slice(insts, func(i, j int) bool { return insts[i].Seq < insts[j].Seq })
	for _, in := range insts {
		hs := ho[in]
		r := e.reg(in.Reg)
		if r == nil || in.Given {
			continue
		}
		form := regForm(r)
		switch r.Life {
		case "singleton":
			for _, h := range hs {
				k := sk{in.Reg, in.Out, "*"}
				if prev, ok := seen[k]; ok && prev != in {
					out = append(out, Finding{feat("clause", "singleton-two-instances", "form", form),
						fmt.Sprintf("singleton %s output %d: two different instances handed out (%s, %s) at %s", r, in.Out, prev.Label(), in.Label(), h.Where)})
				}
				seen[k] = in
			}
		case "scoped":
			home := normScope(e.ScopeOfCall(in.Call))
			for _, h := range hs {
				at := normScope(h.Scope)
				if at != home {
					out = append(out, Finding{feat("clause", "shared-across-scopes", "form", form),
						fmt.Sprintf("scoped instance %s constructed in scope %s was handed out in scope %s (%s)", in.Label(), home, at, h.Where)})
				}
				k := sk{in.Reg, in.Out, at}
				if prev, ok := seen[k]; ok && prev != in {
					out = append(out, Finding{feat("clause", "two-instances-in-scope", "form", form, "threads", fmt.Sprint(len(nThreads))),
						fmt.Sprintf("scope %s handed out two instances of scoped %s: %s and %s (%s)", at, r, prev.Label(), in.Label(), h.Where)})
				}
				seen[k] = in
			}
		case "transient":
			if len(hs) > 1 {
				w := make([]string, len(hs))
				for i, h := range hs {
					w[i] = h.Where
				}
				out = append(out, Finding{feat("clause", "transient-reused", "form", form),
					fmt.Sprintf("transient instance %s handed out %d times: %s", in.Label(), len(hs), strings.Join(w, "; "))})
			}
		}
	}
	// transient: every successful construction is handed out exactly once
	for i := range e.W.Spec.Regs {
		r := &e.W.Spec.Regs[i]
		if r.Life != "transient" || r.Kind != "" {
			continue
		}
		for _, c := range e.W.CallsOf(r.ID) {
			if c.Outcome != "ok" {
				continue
			}
			delivered := 0
			for _, in := range c.Outs {
				delivered += len(ho[in])
			}
			if delivered > 1 {
				// one constructor run per request site: a single invocation (of a multi-output
				// constructor) must not serve two sites with its different outputs
				var w []string
				for _, in := range c.Outs {
					for _, h := range ho[in] {
						w = append(w, in.Label()+" -> "+h.Where)
					}
				}
				out = append(out, Finding{feat("clause", "transient-invocation-served-several-sites", "form", regForm(r)),
					fmt.Sprintf("transient %s: invocation #%d served %d request sites: %s", r, c.Serial, delivered, strings.Join(w, "; "))})
			}
			if delivered == 0 && len(c.Outs) > 0 && !e.inFailedOp(c) {
				out = append(out, Finding{feat("clause", "transient-constructed-not-delivered", "form", regForm(r)),
					fmt.Sprintf("transient %s constructed (%s) but none of its outputs was handed to a request site", r, c.Outs[0].Label())})
			}
		}
	}
	// captive dependencies: a singleton / transient call must never receive a scoped instance
	for _, c := range e.W.Calls {
		r := e.reg(c.Reg)
		if r == nil || r.Life == "scoped" {
			continue
		}
		for _, a := range c.Args {
			argInsts(a, func(in *kit.Inst) {
				if ar := e.reg(in.Reg); ar != nil && ar.Life == "scoped" && !in.Given {
					out = append(out, Finding{feat("clause", "captive", "holder", r.Life),
						fmt.Sprintf("%s %s was constructed with scoped instance %s", r.Life, r, in.Label())})
				}
			})
		}
	}
	return out
}

// inFailedOp reports whether call c happened inside an operation that failed
// (its products were legitimately not delivered).
func (e *Env) inFailedOp(c *kit.Call) bool {
	for _, r := range e.Results {
		if r.Thread == c.Thread && r.Start <= c.Start && c.End <= r.End && (r.Err != nil || r.Panic != nil) {
			return true
		}
	}
	if e.ScopeOfCall(c) == "#build" && e.BuildErr != nil {
		return true
	}
	return false
}

// ancestors returns the scope and its ancestors (names), innermost first, and
// finally "" for the provider.
func (e *Env) ancestors(name string) []string {
	var out []string
	for name != "" && name != "#root" {
		out = append(out, name)
		s := e.Scopes[name]
		if s == nil {
			break
		}
		name = s.Parent
	}
	return append(out, "")
}

// ownerOf returns the owner of a container-created instance: "#prov" for
// singletons, otherwise the (normalised) scope it was constructed in.
func (e *Env) ownerOf(in *kit.Inst) string {
	r := e.reg(in.Reg)
	if r != nil && r.Life == "singleton" {
		return "#prov"
	}
	if in.Call == nil {
		return "#prov"
	}
	return normScope(e.ScopeOfCall(in.Call))
}

// closeTriggers returns the stamps at which something that may legitimately
// dispose `owner` started: a Close of it / an ancestor / the provider, a
// cancel of its (or an ancestor's) caller context, or a failing creation.
func (e *Env) closeTriggers(owner string) []int {
	var ts []int
	chain := map[string]bool{"": true}
	if owner != "#prov" && owner != "#root" {
		for _, a := range e.ancestors(owner) {
			chain[a] = true
		}
	}
	for _, r := range e.Results {
		if r.Skipped {
			continue
		}
		switch r.Op.Kind {
		case "close":
			if chain[r.Op.Scope] {
				ts = append(ts, r.Start)
			}
		case "cancel":
			if chain[r.Op.Scope] && r.Op.Scope != "" {
				ts = append(ts, r.Start)
			}
		case "scope":
			if r.Op.Bind == owner && (r.Err != nil || r.Panic != nil) {
				ts = append(ts, r.Start)
			}
		}
	}
	if e.BuildErr != nil {
		ts = append(ts, 0)
	}
	return ts
}

// DisposalOracle checks "closed exactly once, never early, never leaked"
// (final = the provider has been closed and everything settled).
func (e *Env) DisposalOracle(final bool) []Finding {
	var out []Finding
	for _, in := range e.W.Insts {
		if in.Given {
			continue
		}
		r := e.reg(in.Reg)
		if r == nil {
			continue
		}
		owner := e.ownerOf(in)
		creator := "resolve"
		if in.Call != nil {
			switch cs := e.ScopeOfCall(in.Call); {
			case cs == "#build":
				creator = "build"
			default:
				for _, rr := range e.Results {
					if rr.Op.Kind == "scope" && rr.Op.Bind == cs && rr.Thread == in.Call.Thread && rr.Start <= in.Call.Start && in.Call.End <= rr.End {
						creator = "scope-init"
					}
				}
			}
		}
		failedOwner := "no"
		if owner == "#prov" || owner == "#root" {
			if e.BuildErr != nil {
				failedOwner = "yes"
			}
		} else if s := e.Scopes[owner]; s != nil && s.S == nil {
			failedOwner = "yes"
		}
		if !in.Disp {
			if len(in.Closes) > 0 || in.Sentinel != 0 {
				out = append(out, Finding{feat("clause", "touched"), fmt.Sprintf("non-disposable %s was touched", in.Label())})
			}
			continue
		}
		if len(in.Closes) > 1 {
			out = append(out, Finding{feat("clause", "closed-twice", "life", r.Life, "creator", creator, "failed-owner", failedOwner, "out", outIdx(in)),
				fmt.Sprintf("%s (%s, owner %s) closed %d times", in.Label(), r.Life, owner, len(in.Closes))})
		}
		if final && len(in.Closes) == 0 {
			out = append(out, Finding{feat("clause", "never-closed", "life", r.Life, "creator", creator, "failed-owner", failedOwner, "out", outIdx(in), "overlap", e.overlap(in)),
				fmt.Sprintf("%s (%s, owner %s, created during %s) was never closed", in.Label(), r.Life, owner, creator)})
		}
		if len(in.Closes) > 0 {
			trig := e.closeTriggers(owner)
			first := in.Closes[0].Stamp
			ok := false
			for _, t := range trig {
				if t < first {
					ok = true
				}
			}
			if !ok {
				out = append(out, Finding{feat("clause", "closed-early", "life", r.Life, "creator", creator),
					fmt.Sprintf("%s (%s, owner %s) was closed at stamp %d before any Close/cancel of its owner, an ancestor or the provider started", in.Label(), r.Life, owner, first)})
			}
		}
	}
	return out
}

func outIdx(in *kit.Inst) string {
	if in.Out == 0 {
		return "primary"
	}
	return "secondary"
}

// overlap tells whether the instance was constructed while a close-trigger of
// its owner was already in progress.
func (e *Env) overlap(in *kit.Inst) string {
	for _, t := range e.closeTriggers(e.ownerOf(in)) {
		if t < in.Created {
			return "yes"
		}
	}
	return "no"
}

// OrderOracle checks C11: reverse creation order within an owner, descendants
// before ancestors, scopes before singletons.
func (e *Env) OrderOracle() []Finding {
	var out []Finding
	byOwner := map[string][]*kit.Inst{}
	for _, in := range e.W.Insts {
		if in.Given || !in.Disp || len(in.Closes) != 1 {
			continue
		}
		o := e.ownerOf(in)
		byOwner[o] = append(byOwner[o], in)
	}
	for o, ins := range byOwner {
		sort.Slice(ins, func(i, j int) bool { return ins[i].Seq < ins[j].Seq })
		for i := 0; i < len(ins); i++ {
			for j := i + 1; j < len(ins); j++ {
				a, b := ins[i], ins[j] // a created before b => b must close before a
				// creation *completion* order: instances of one constructor call are
				// registered in output order
				if !(b.Closes[0].Stamp < a.Closes[0].Stamp) {
					kind := "scope"
					if o == "#prov" {
						kind = "singletons"
					}
					out = append(out, Finding{feat("clause", "not-reverse-creation-order", "owner", kind),
						fmt.Sprintf("owner %s: %s (created first) was closed at %d before %s (created later) at %d", o, a.Label(), a.Closes[0].Stamp, b.Label(), b.Closes[0].Stamp)})
				}
			}
		}
	}
	// descendants before ancestors' own instances; every scope before any singleton
	for o1, l1 := range byOwner {
		for o2, l2 := range byOwner {
			if o1 == o2 {
				continue
			}
			before := false // o1 must be completely closed before o2 starts
			clause := ""
			if o2 == "#prov" {
				before, clause = true, "singleton-closed-before-scope"
			} else if o1 != "#prov" && e.isDescendant(o1, o2) {
				before, clause = true, "ancestor-closed-before-descendant"
			}
			if !before {
				continue
			}
			for _, a := range l1 {
				for _, b := range l2 {
					if !(a.Closes[0].Stamp < b.Closes[0].Stamp) {
						out = append(out, Finding{feat("clause", clause),
							fmt.Sprintf("%s (owner %s) closed at %d, after %s (owner %s) at %d", a.Label(), o1, a.Closes[0].Stamp, b.Label(), o2, b.Closes[0].Stamp)})
					}
				}
			}
		}
	}
	return out
}

// HeldOpenOracle checks the consequence C11 states for its ordering rule, in a form
// that is also meaningful when a resolution overlaps a Close: no disposable X is closed
// while a still-open disposable Y that received X as a constructor argument exists.
// Y "exists" once the container has established it: the operation (resolution, scope
// creation, Build) during which its constructor ran completed successfully, or a completed
// operation handed it (or a sibling output of the same constructor call) out successfully,
// before X was closed. An instance whose constructor has returned but whose resolution was
// then refused because a Close overlapped is not ordered (the container disposes such late
// arrivals itself; between constructor return and registration the container cannot know it). A singleton holding an instance owned by the root scope is exempt:
// the property itself orders every scope before any singleton.
func (e *Env) HeldOpenOracle() []Finding {
	var out []Finding
	ho := e.handouts()
	for _, c := range e.W.Calls {
		if c.Outcome != "ok" {
			continue
		}
		for _, y := range c.Outs {
			if !y.Disp || y.Given {
				continue
			}
			oy := e.ownerOf(y)
			// when was y established? (the operation that constructed it completed successfully,
			// or a completed operation handed it / a sibling output out)
			est := -1
			if e.ScopeOfCall(c) == "#build" {
				if e.BuildErr == nil && e.BuildPanic == nil {
					est = c.End
				}
			} else {
				for _, r := range e.Results {
					if r.Thread == c.Thread && !r.Skipped && r.Start <= c.Start && c.End <= r.End && r.Err == nil && r.Panic == nil {
						est = r.End
					}
				}
			}
			for _, sib := range c.Outs {
				for _, h := range ho[sib] {
					if h.Res != nil && (est < 0 || h.Res.End < est) {
						est = h.Res.End
					}
				}
			}
			if est < 0 {
				continue
			}
			yClosed := 1 << 60
			if len(y.Closes) > 0 {
				yClosed = y.Closes[0].Stamp
			}
			for _, a := range c.Args {
				argInsts(a, func(x *kit.Inst) {
					if !x.Disp || len(x.Closes) == 0 {
						return // (a registered instance VALUE the container closes counts as a dependency, too)
					}
					ox := e.ownerOf(x)
					if oy == "#prov" && ox != "#prov" {
						return
					}
					t := x.Closes[0].Stamp
					if est < t && t < yClosed {
						out = append(out, Finding{feat("clause", "dependency-closed-while-dependent-open", "same-owner", fmt.Sprint(ox == oy)),
							fmt.Sprintf("%s (owner %s) was closed at stamp %d while %s (owner %s), which received it and was established at stamp %d, was still open (closed at %d)",
								x.Label(), ox, t, y.Label(), oy, est, yClosed)})
					}
				})
			}
		}
	}
	return out
}

// isDescendant reports whether scope a is a strict descendant of scope b
// (b == "#root" only has descendants through provider.Close, which the
// property orders under "every scope before any singleton", not here).
func (e *Env) isDescendant(a, b string) bool {
	if a == "#root" || b == "#root" || a == b {
		return false
	}
	for _, x := range e.ancestors(a)[1:] {
		if x == b {
			return true
		}
	}
	return false
}
