package props

import (
	"encoding/json"
	"fmt"
	"strings"

	"github.com/junioryono/godi/v4"
	"github.com/junioryono/godi/v4/verifmc/kit"
	"github.com/junioryono/godi/v4/verifmc/mc"
)

// C20 — modules are transparent groupings of registration calls.

// mnode is a module tree node: a leaf (registration call) or a named module.
type mnode struct {
	Leaf string  `json:"leaf,omitempty"` // ok | keyed | dup | bad | rm | rmk | nil
	Kids []mnode `json:"kids,omitempty"`
	Mod  bool    `json:"mod,omitempty"`
}

var leafKinds = []string{"ok", "keyed", "dup", "bad", "rm", "rm1", "rmk", "nil"}

// forests(n, d): all ordered forests with exactly n leaves and module nesting <= d.
func forests(n, d int) [][]mnode {
	if n == 0 {
		return [][]mnode{nil}
	}
	var out [][]mnode
	// first element is a leaf
	for _, rest := range forests(n-1, d) {
		out = append(out, append([]mnode{{Leaf: "?"}}, rest...))
	}
	// first element is a module with k leaves inside (k may be 0 only when it is the sole way to spend nothing: allow empty modules once)
	if d > 0 {
		for k := 1; k <= n; k++ {
			for _, inner := range forests(k, d-1) {
				for _, rest := range forests(n-k, d) {
					out = append(out, append([]mnode{{Mod: true, Kids: inner}}, rest...))
				}
			}
		}
	}
	return out
}

func countLeaves(f []mnode) int {
	n := 0
	for _, x := range f {
		if x.Mod {
			n += countLeaves(x.Kids)
		} else {
			n++
		}
	}
	return n
}

// assign fills the leaf kinds of a forest shape from a digit string.
func assign(f []mnode, kinds []string, pos *int) []mnode {
	out := make([]mnode, len(f))
	for i, x := range f {
		if x.Mod {
			out[i] = mnode{Mod: true, Kids: assign(x.Kids, kinds, pos)}
		} else {
			out[i] = mnode{Leaf: kinds[*pos]}
			*pos++
		}
	}
	return out
}

type c20Run struct {
	life   string // lifetimes of the Add leaves: "" all singleton | scoped | transient | rot (singleton, scoped, transient in turn)
	addN   int
	scheme string // module naming: "" unique | same (every module has one name) | alt (names repeat every second nesting level)
	w     *kit.World
	spec  *kit.Spec
	okN   int
	flat  []func(c godi.Collection) error // the flattened direct calls
	names [][]string                      // enclosing module names per flattened call
}

// leafOption returns the ModuleOption for a leaf and the equivalent direct call.
func (r *c20Run) leaf(kind string) (godi.ModuleOption, func(c godi.Collection) error) {
	mkReg := func(t, name, group string) *kit.Reg {
		life := "singleton"
		switch r.life {
		case "scoped", "transient":
			life = r.life
		case "rot":
			life = []string{"singleton", "scoped", "transient"}[r.addN%3]
		}
		r.addN++
		r.spec.Regs = append(r.spec.Regs, kit.Reg{ID: len(r.spec.Regs), Life: life, Outs: []kit.Out{{T: t}}, Name: name, Group: group})
		return &r.spec.Regs[len(r.spec.Regs)-1]
	}
	add := func(rp *kit.Reg) (godi.ModuleOption, func(c godi.Collection) error) {
		f := r.w.Fn(rp)
		opts := kit.Options(rp)
		switch rp.Life {
		case "scoped":
			return godi.AddScoped(f, opts...), func(c godi.Collection) error { return c.AddScoped(f, opts...) }
		case "transient":
			return godi.AddTransient(f, opts...), func(c godi.Collection) error { return c.AddTransient(f, opts...) }
		}
		return godi.AddSingleton(f, opts...), func(c godi.Collection) error { return c.AddSingleton(f, opts...) }
	}
	switch kind {
	case "ok":
		t := fmt.Sprintf("P%d", 2+r.okN%4) // P2..P5: never collides with the dup leaf's P0
		r.okN++
		if r.okN > 4 {
			return add(mkReg(t, fmt.Sprintf("n%d", r.okN), ""))
		}
		return add(mkReg(t, "", ""))
	case "keyed":
		r.okN++
		return add(mkReg("P1", fmt.Sprintf("k%d", r.okN), ""))
	case "dup":
		return add(mkReg("P0", "", "")) // the first one succeeds, every later one is a duplicate
	case "bad":
		return add(mkReg("D0", "x", "g")) // name + group: invalid option combination
	case "rm":
		return godi.Remove[*kit.P0](), func(c godi.Collection) error { c.Remove(kit.TypeOf("P0")); return nil }
	case "rm1":
		// P1 only ever has keyed registrations: Remove (unkeyed) must leave them alone
		return godi.Remove[*kit.P1](), func(c godi.Collection) error { c.Remove(kit.TypeOf("P1")); return nil }
	case "rmk":
		return godi.RemoveKeyed[*kit.P1]("k1"), func(c godi.Collection) error { c.RemoveKeyed(kit.TypeOf("P1"), "k1"); return nil }
	}
	return nil, nil // nil entry
}

// build turns a forest into module options, recording the flattened calls.
func (r *c20Run) build(f []mnode, path []string, counter *int) []godi.ModuleOption {
	var out []godi.ModuleOption
	for _, x := range f {
		if x.Mod {
			*counter++
			name := fmt.Sprintf("m%d", *counter)
			switch r.scheme {
			case "same":
				name = "m"
			case "alt":
				name = []string{"a", "b"}[len(path)%2]
			}
			kids := r.build(x.Kids, append(append([]string{}, path...), name), counter)
			out = append(out, godi.NewModule(name, kids...))
			continue
		}
		opt, direct := r.leaf(x.Leaf)
		out = append(out, opt)
		if direct != nil {
			r.flat = append(r.flat, direct)
			r.names = append(r.names, append([]string{}, path...))
		}
	}
	return out
}

// nested reports whether some module of the forest contains a module.
func nested(f []mnode, inMod bool) bool {
	for _, x := range f {
		if x.Mod && (inMod || nested(x.Kids, true)) {
			return true
		}
	}
	return false
}

// c20Check judges one forest; forests with nested modules are judged under every naming scheme
// (unique names, one name for all modules, names repeating every second level).
func c20Check(forest []mnode) (fs []Finding, outcome string) {
	fs, outcome = c20CheckNamed(forest, "", "")
	if countLeaves(forest) <= c20LifeMaxLeaves {
		// the module forms of AddScoped / AddTransient are separate code from AddSingleton
		for _, life := range []string{"transient", "scoped", "rot"} {
			f2, _ := c20CheckNamed(forest, "", life)
			for _, x := range f2 {
				x.F["lifetimes"] = life
				x.Detail += "\n  lifetimes of the Add entries: " + life
				fs = append(fs, x)
			}
		}
	}
	if nested(forest, false) {
		for _, sch := range []string{"same", "alt"} {
			f2, _ := c20CheckNamed(forest, sch, "")
			for _, x := range f2 {
				x.F["names"] = sch
				x.Detail += "\n  module naming scheme: " + sch
				fs = append(fs, x)
			}
		}
	}
	return
}

// c20LifeMaxLeaves: forests up to this many leaves are also judged with scoped / transient / rotating lifetimes.
var c20LifeMaxLeaves = 3

func c20CheckNamed(forest []mnode, scheme, life string) (fs []Finding, outcome string) {
	spec := &kit.Spec{}
	run := &c20Run{w: kit.NewWorld(spec), spec: spec, scheme: scheme, life: life}
	cnt := 0
	opts := run.build(forest, nil, &cnt)
	// building a module from a caller-owned slice must leave that slice alone
	fp := func(l []godi.ModuleOption) string {
		var b strings.Builder
		for _, o := range l {
			if o == nil {
				b.WriteString("nil,")
			} else {
				fmt.Fprintf(&b, "%p,", o)
			}
		}
		return b.String()
	}
	beforeSlice := fp(opts)
	_ = godi.NewModule("probe", opts...)
	if after := fp(opts); after != beforeSlice {
		fs = append(fs, Finding{feat("clause", "caller-slice-modified"), fmt.Sprintf("NewModule(name, opts...) rewrote the caller's slice: %s -> %s", beforeSlice, after)})
	}
	viaModules := godi.NewCollection()
	direct := godi.NewCollection()
	var errM error
	if p, did := kit.Try(func() { errM = viaModules.AddModules(opts...) }); did {
		return []Finding{{feat("clause", "panic", "op", "AddModules"), fmt.Sprint(p)}}, "panic"
	}
	var errD error
	failedAt := -1
	for i, call := range run.flat {
		if errD = call(direct); errD != nil {
			failedAt = i
			break
		}
	}
	bad := func(clause, d string) { fs = append(fs, Finding{feat("clause", clause), d}) }
	if (errM != nil) != (errD != nil) {
		bad("error-presence", fmt.Sprintf("AddModules returned %v, the flattened direct calls %v", errM, errD))
	}
	if errM != nil && errD != nil {
		// one ModuleError per enclosing module, outermost first, then the cause
		want := run.names[failedAt]
		cur := errM
		for _, name := range want {
			me, ok := cur.(godi.ModuleError)
			if !ok {
				if mp, okp := cur.(*godi.ModuleError); okp {
					me, ok = *mp, true
				}
			}
			if !ok {
				bad("wrapper-missing", fmt.Sprintf("expected ModuleError{%s} in chain %v (want wrappers %v), got %T", name, errM, want, cur))
				break
			}
			if me.Module != name {
				bad("wrapper-order", fmt.Sprintf("expected ModuleError{%s}, got ModuleError{%s}; want wrappers %v", name, me.Module, want))
			}
			cur = me.Cause
		}
		if _, extra := cur.(godi.ModuleError); extra {
			bad("wrapped-too-often", fmt.Sprintf("more ModuleError wrappers than enclosing modules %v: %v", want, errM))
		}
		if kit.ClassOf(errM) != kit.ClassOf(errD) {
			bad("cause-class", fmt.Sprintf("errors.Is/As through the module wrappers gives class %q, the direct call's error has class %q", kit.ClassOf(errM), kit.ClassOf(errD)))
		}
		if cur != nil && errD != nil && cur.Error() != errD.Error() {
			bad("cause-differs", fmt.Sprintf("innermost cause %q differs from the direct call's error %q", cur, errD))
		}
	}
	// module values are stateless: applying the very same values to a second fresh collection (as an
	// application shares module definitions between containers, or retries after fixing a conflict)
	// gives the same error and the same registrations as the first time
	{
		again := godi.NewCollection()
		var errA error
		if p, did := kit.Try(func() { errA = again.AddModules(opts...) }); did {
			bad("panic", fmt.Sprintf("second application of the same module values panicked: %v", p))
		} else {
			es := func(e error) string {
				if e == nil {
					return "<nil>"
				}
				return e.Error()
			}
			if es(errA) != es(errM) {
				bad("module-value-stateful", fmt.Sprintf("the same module values applied to a second fresh collection returned %q, the first time %q", es(errA), es(errM)))
			}
			if d1, d2 := collDump(viaModules), collDump(again); d1 != d2 {
				bad("module-value-stateful", fmt.Sprintf("the same module values applied to a second fresh collection registered differently:\n  first  %s\n  second %s", d1, d2))
			}
		}
	}
	// indistinguishable collections
	dm, dd := collDump(viaModules), collDump(direct)
	if dm != dd {
		bad("collection-differs", fmt.Sprintf("collections differ:\n  via modules %s\n  direct      %s", dm, dd))
	}
	if viaModules.Count() != direct.Count() || len(viaModules.ToSlice()) != len(direct.ToSlice()) {
		bad("query-differs", "Count/ToSlice differ")
	}
	for _, t := range []string{"P0", "P1", "P2", "P3", "P4", "P5", "D0"} {
		if viaModules.Contains(kit.TypeOf(t)) != direct.Contains(kit.TypeOf(t)) {
			bad("query-differs", "Contains("+t+") differs")
		}
		for _, k := range []string{"k1", "k2", "k3", "x"} {
			if viaModules.ContainsKeyed(kit.TypeOf(t), k) != direct.ContainsKeyed(kit.TypeOf(t), k) {
				bad("query-differs", "ContainsKeyed("+t+","+k+") differs")
			}
		}
	}
	// indistinguishable providers
	obs := func(c godi.Collection) string {
		e := &Env{W: run.w, Scopes: map[string]*scopeRec{}, curScope: map[int]string{}, CallScope: map[*kit.Call]string{}}
		p, did := kit.Try(func() { e.Prov, e.BuildErr = c.Build() })
		if did {
			return fmt.Sprintf("PANIC %v", p)
		}
		if e.BuildErr != nil {
			return "build:" + kit.ClassOf(e.BuildErr)
		}
		probeUniverse(e, "", []string{"P0", "P1", "P2", "P3", "P4", "P5", "D0"}, []string{"", "k1", "k2", "n5"}, []string{"g"})
		var b strings.Builder
		for _, r := range e.Results {
			lbl := r.Label
			if in := kit.InstOf(r.Val); in != nil {
				lbl = fmt.Sprintf("r%d.%d", in.Reg, in.Out) // same registration, independent of invocation serial
			}
			fmt.Fprintf(&b, "%s=%s;", r.Op, lbl)
		}
		e.Do(Op{Kind: "close", Scope: ""})
		return b.String()
	}
	om, od := obs(viaModules), obs(direct)
	if om != od {
		bad("provider-differs", fmt.Sprintf("providers differ:\n  via modules %s\n  direct      %s", om, od))
	}
	outcome = fmt.Sprintf("failedAt=%d class=%s depth=%d", failedAt, kit.ClassOf(errM), cnt)
	return
}

func describeForest(f []mnode) string {
	var parts []string
	for _, x := range f {
		if x.Mod {
			parts = append(parts, "M["+describeForest(x.Kids)+"]")
		} else {
			parts = append(parts, x.Leaf)
		}
	}
	return strings.Join(parts, " ")
}

func c20Enumerate(r *mc.Report, n, depth, shard, nshards int) {
	if r.Only != nil {
		var f []mnode
		if json.Unmarshal(r.Only, &f) == nil && countLeaves(f) == n {
			var fs []Finding
			c20LifeMaxLeaves = 4 // a replay judges the tree under every scheme, whatever tier found it
			seqOnce(func() { fs, _ = c20Check(f) })
			r.Executions++
			for _, x := range fs {
				r.Violate(x.F, x.Detail+"\n  tree: "+describeForest(f), f)
			}
		}
		return
	}
	shapes := forests(n, depth)
	total := 1
	for i := 0; i < n; i++ {
		total *= len(leafKinds)
	}
	k := 0
	for _, shape := range shapes {
		for code := 0; code < total; code++ {
			k++
			if nshards > 1 && k%nshards != shard {
				continue
			}
			kinds := make([]string, n)
			c := code
			for i := 0; i < n; i++ {
				kinds[i] = leafKinds[c%len(leafKinds)]
				c /= len(leafKinds)
			}
			pos := 0
			f := assign(shape, kinds, &pos)
			var fs []Finding
			var oc string
			s := seqOnce(func() { fs, oc = c20Check(f) })
			r.Executions++
			r.Validated++
			r.States++
			r.Transitions += int64(n)
			r.Outcome(oc)
			fs = append(fs, genericFindings(nil, s)...)
			for _, x := range fs {
				r.Violate(x.F, x.Detail+"\n  tree: "+describeForest(f), f)
			}
			if len(r.Samples) < 2 && k%1777 == 5 {
				r.Sample(map[string]any{"tree": describeForest(f), "outcome": oc})
			}
		}
	}
}

func init() {
	mc.Register(&mc.Check{
		Prop:        "C20",
		Rule:        "all module trees (ordered forests passed to AddModules) with <=3 leaves at module nesting <=3 and 4 leaves at nesting <=1 (quick); 4 leaves at nesting <=3 and 5 leaves at nesting <=1 (thorough); every leaf drawn from {Add ok, Add keyed ok, Add duplicating, Add with an invalid option combination, Remove of an unkeyed type, Remove of a type that only has keyed registrations, RemoveKeyed, nil entry}: a twin collection receives the flattened calls directly, stopping at the first failure; compared: deep dumps of both collections, Contains/ContainsKeyed/Count/ToSlice, Build verdict and the answers of the whole identity universe of both providers, building a module from a caller-owned slice leaves the slice unchanged; applying the very same module values to a second fresh collection gives the same error and the same registrations; and the error chain (exactly one ModuleError per enclosing module, outermost first, then the direct call's error; same errors.Is/As classes); trees with nested modules are judged three times: with unique module names, with one name shared by all modules, and with names repeating every second nesting level; forests of <=3 (thorough 4) leaves additionally with all-scoped, all-transient and rotating lifetimes of the Add entries. distinct = (position of the failing leaf, error class, number of modules) classes.",
		Assume:      []string{"both collections register the very same function values, so dumps are comparable without renaming"},
		MinOutcomes: 5,
		Jobs: func(tier string) []mc.Job {
			var jobs []mc.Job
			for n := 0; n <= 2; n++ {
				n := n
				jobs = append(jobs, mc.Job{Name: fmt.Sprintf("c20-leaves%d", n), Run: func(r *mc.Report) { c20Enumerate(r, n, 3, 0, 1) }})
			}
			for sh := 0; sh < 16; sh++ {
				sh := sh
				jobs = append(jobs, mc.Job{Name: fmt.Sprintf("c20-leaves3#%d", sh), Weight: 8, Run: func(r *mc.Report) { c20Enumerate(r, 3, 3, sh, 16) }})
			}
			d4 := 1
			c20LifeMaxLeaves = 3
			if tier == "thorough" {
				d4 = 3
				c20LifeMaxLeaves = 4
			}
			for sh := 0; sh < 16; sh++ {
				sh := sh
				jobs = append(jobs, mc.Job{Name: fmt.Sprintf("c20-leaves4#%d", sh), Weight: 5, Run: func(r *mc.Report) { c20Enumerate(r, 4, d4, sh, 16) }})
			}
			if tier == "thorough" {
				for sh := 0; sh < 64; sh++ {
					sh := sh
					jobs = append(jobs, mc.Job{Name: fmt.Sprintf("c20-leaves5#%d", sh), Weight: 9, Run: func(r *mc.Report) { c20Enumerate(r, 5, 1, sh, 64) }})
				}
			}
			return jobs
		},
	})
}
