package props

import (
	"fmt"
	"strings"

	"github.com/junioryono/godi/v4/internal/vsched"
	"github.com/junioryono/godi/v4/verifmc/kit"
	"github.com/junioryono/godi/v4/verifmc/mc"
)

// C01 / C02 / C03 — the three lifetimes. One rich container, three views of
// the same oracle (LifetimeOracle + model-based probe/wiring oracle).

// lifeSpec exercises every producer form for every lifetime:
//
//	r0  singleton D0                         r1  singleton (P0,P1) two returns
//	r2  singleton resobj{P2, P3@k}           r3  singleton D1 as IA+IB
//	r4  singleton D2[g]   r5 singleton D2[g] r6  singleton instance P4
//	r7  transient D3(D0)                     r8  transient P5@k(D3)
//	r9  scoped D4(D0, D3, D3)                r10 scoped D5(D4, P0, IA) multi-out second output P... (kept single)
//	r11 scoped D2[h](D4)  r12 transient D2[h](D3)
//	r13 singleton D1@s(D3)  - singleton consuming a transient at Build
func lifeSpec() kit.Spec {
	return kit.Spec{Regs: []kit.Reg{
		{ID: 0, Life: "singleton", Outs: []kit.Out{{T: "D0"}}},
		{ID: 1, Life: "singleton", Outs: []kit.Out{{T: "P0"}, {T: "P1"}}},
		{ID: 2, Life: "singleton", ResObj: true, Outs: []kit.Out{{T: "P2"}, {T: "P3", Key: "k"}}},
		{ID: 3, Life: "singleton", Outs: []kit.Out{{T: "D1"}}, As: []string{"IA", "IB"}},
		{ID: 4, Life: "singleton", Outs: []kit.Out{{T: "D2"}}, Group: "g"},
		{ID: 5, Life: "singleton", Outs: []kit.Out{{T: "D2"}}, Group: "g", Deps: []kit.Dep{{T: "D0"}}},
		{ID: 6, Life: "singleton", Kind: "instance", Outs: []kit.Out{{T: "P4"}}},
		{ID: 7, Life: "transient", Outs: []kit.Out{{T: "D3"}}, Deps: []kit.Dep{{T: "D0"}}},
		{ID: 8, Life: "transient", Outs: []kit.Out{{T: "P5"}}, Name: "k", Deps: []kit.Dep{{T: "D3"}}},
		{ID: 9, Life: "scoped", Err: true, Outs: []kit.Out{{T: "D4"}}, Deps: []kit.Dep{{T: "D0"}, {T: "D3"}, {T: "D3"}}},
		{ID: 10, Life: "scoped", Outs: []kit.Out{{T: "D5"}, {T: "P5"}}, Deps: []kit.Dep{{T: "D4"}, {T: "P0"}, {T: "IA"}}},
		{ID: 11, Life: "scoped", Outs: []kit.Out{{T: "D2"}}, Group: "h", Deps: []kit.Dep{{T: "D4"}}},
		{ID: 12, Life: "transient", Outs: []kit.Out{{T: "D2"}}, Group: "h", Deps: []kit.Dep{{T: "D3"}}},
		{ID: 13, Life: "singleton", Outs: []kit.Out{{T: "D1"}}, Name: "s", Deps: []kit.Dep{{T: "D3"}}},
		{ID: 14, Life: "scoped", In: true, Outs: []kit.Out{{T: "P3"}}, Deps: []kit.Dep{{T: "D2", Group: "h"}, {T: "D2", Group: "g"}, {T: "P5", Key: "k"}, {T: "P3", Key: "k"}, {T: "scope"}}},
		{ID: 16, Life: "singleton", Kind: "instance", Outs: []kit.Out{{T: "P4"}}, Name: "i2"},
		{ID: 17, Life: "singleton", Kind: "instance", Outs: []kit.Out{{T: "P4"}}, Group: "gi"},
		{ID: 18, Life: "singleton", Kind: "instance", Outs: []kit.Out{{T: "P4"}}, Group: "gi"},
		{ID: 15, Life: "scoped", Kind: "void", Deps: []kit.Dep{{T: "P1"}, {T: "D3"}}},
	}}
}

var lifeProbes = []Op{
	{Kind: "get", T: "D0"}, {Kind: "get", T: "P1"}, {Kind: "get", T: "P3", Key: "k"}, {Kind: "get", T: "IB"},
	{Kind: "group", T: "D2", Group: "g"}, {Kind: "get", T: "P4"}, {Kind: "get", T: "P4", Key: "i2"}, {Kind: "group", T: "P4", Group: "gi"}, {Kind: "get", T: "D1", Key: "s"},
	{Kind: "get", T: "D3"}, {Kind: "get", T: "P5", Key: "k"},
	{Kind: "get", T: "D4"}, {Kind: "get", T: "P5"}, {Kind: "get", T: "D5"}, {Kind: "group", T: "D2", Group: "h"}, {Kind: "get", T: "P3"},
}

var lifeClauses = map[string][]string{
	"C01": {"singleton-"},
	"C02": {"double-construct", "two-instances-in-scope", "shared-across-scopes", "initializer-"},
	"C03": {"transient-"},
}

func filterClauses(prop string, fs []Finding) []Finding {
	var out []Finding
	for _, f := range fs {
		c := f.F["clause"]
		keep := false
		for _, p := range lifeClauses[prop] {
			if strings.HasPrefix(c, p) {
				keep = true
			}
		}
		// generic failures (panic, race, deadlock, wrong producer of the lifetime under test) always count
		switch c {
		case "panic", "thread-panic", "deadlock", "race", "build-failed":
			keep = true
		}
		if lf := f.F["life"]; lf != "" {
			want := map[string]string{"C01": "singleton", "C02": "scoped", "C03": "transient"}[prop]
			if lf == want {
				keep = true
			}
		}
		if keep {
			out = append(out, f)
		}
	}
	return out
}

// lifeOracle = lifetime invariants + model-based identity/argument checks,
// tagged with the lifetime of the registration concerned.
func lifeOracle(e *Env, m *Model) []Finding {
	if e.Prov == nil {
		return []Finding{{feat("clause", "build-failed"), fmt.Sprint(e.BuildErr)}}
	}
	out := e.LifetimeOracle()
	for _, f := range e.ProbeOracle(m) {
		// attribute to the lifetime of the probed identity's registration
		out = append(out, f)
	}
	out = append(out, e.WiringOracle(m)...)
	// tag probe findings with lifetimes
	for i := range out {
		if out[i].F["life"] != "" {
			continue
		}
		d := out[i].Detail
		for _, r := range e.W.Spec.Regs {
			if strings.Contains(d, fmt.Sprintf("r%d ", r.ID)) || strings.Contains(d, fmt.Sprintf("(r%d)", r.ID)) || strings.Contains(d, fmt.Sprintf("r%d:", r.ID)) {
				out[i].F["life"] = r.Life
				break
			}
		}
	}
	return out
}

func lifeHistCfg(prop, tier string) *histCfg {
	spec := lifeSpec()
	m := NewModel(&spec)
	depth := 3
	if tier == "thorough" {
		depth = 4
	}
	return &histCfg{Name: prop + "-hist/life", Spec: spec, Probes: lifeProbes, MaxScopes: 3, Depth: depth,
		Final:  []Op{{Kind: "close", Scope: ""}, {Kind: "settle"}},
		Oracle: func(e *Env, s *vsched.Sched, h []Op) []Finding { return filterClauses(prop, lifeOracle(e, m)) }}
}

// ------------------------------------------------------------- concurrent scenarios

func lifeConcScenarios(prop string) []*Scenario {
	spec := lifeSpec()
	setup := []Op{{Kind: "scope", Bind: "s1"}, {Kind: "scope", Scope: "s1", Bind: "s2"}}
	final := []Op{{Kind: "settle"}, {Kind: "close", Scope: ""}, {Kind: "settle"}}
	mk := func(name string, faults map[string]string, threads ...[]Op) *Scenario {
		return &Scenario{Name: prop + "-conc/" + name, Spec: spec, Setup: setup, Threads: threads, Final: final, Faults: faults}
	}
	switch prop {
	case "C01":
		return []*Scenario{
			mk("type+key", nil, []Op{{Kind: "get", Scope: "s1", T: "D0"}, {Kind: "get", Scope: "s2", T: "P3", Key: "k"}}, []Op{{Kind: "get", Scope: "", T: "D0"}, {Kind: "get", Scope: "s2", T: "P3", Key: "k"}}),
			mk("group+alias", nil, []Op{{Kind: "group", Scope: "s2", T: "D2", Group: "g"}, {Kind: "get", Scope: "s1", T: "IA"}}, []Op{{Kind: "get", Scope: "", T: "IB"}, {Kind: "group", Scope: "", T: "D2", Group: "g"}}),
			mk("injected-vs-direct", nil, []Op{{Kind: "get", Scope: "s1", T: "D5"}}, []Op{{Kind: "get", Scope: "s2", T: "P0"}, {Kind: "get", Scope: "s2", T: "IA"}}),
			mk("with-scope-churn", nil, []Op{{Kind: "get", Scope: "s1", T: "P1"}}, []Op{{Kind: "get", Scope: "s2", T: "P1"}}, []Op{{Kind: "scope", Scope: "", Bind: "s3"}, {Kind: "get", Scope: "s3", T: "P1"}, {Kind: "close", Scope: "s3"}}),
		}
	case "C02":
		return []*Scenario{
			mk("direct+direct", nil, []Op{{Kind: "get", Scope: "s1", T: "D4"}}, []Op{{Kind: "get", Scope: "s1", T: "D4"}}),
			mk("direct+dependent", nil, []Op{{Kind: "get", Scope: "s1", T: "D4"}}, []Op{{Kind: "get", Scope: "s1", T: "D5"}}),
			mk("group+direct", nil, []Op{{Kind: "group", Scope: "s1", T: "D2", Group: "h"}}, []Op{{Kind: "get", Scope: "s1", T: "D4"}}),
			mk("first-output+second-output", nil, []Op{{Kind: "get", Scope: "s1", T: "D5"}}, []Op{{Kind: "get", Scope: "s1", T: "P5"}}),
			mk("direct+direct-first-fails", map[string]string{"9:1": "err"}, []Op{{Kind: "get", Scope: "s1", T: "D4"}}, []Op{{Kind: "get", Scope: "s1", T: "D4"}}),
			mk("parent+child", nil, []Op{{Kind: "get", Scope: "s1", T: "D4"}}, []Op{{Kind: "get", Scope: "s2", T: "D4"}}),
			mk("three-resolvers", nil, []Op{{Kind: "get", Scope: "s1", T: "D4"}}, []Op{{Kind: "get", Scope: "s1", T: "D4"}}, []Op{{Kind: "get", Scope: "s1", T: "P3"}}),
		}
	case "C03":
		return []*Scenario{
			mk("transient+transient", nil, []Op{{Kind: "get", Scope: "s1", T: "D3"}}, []Op{{Kind: "get", Scope: "s1", T: "D3"}}),
			mk("keyed+group", nil, []Op{{Kind: "get", Scope: "s1", T: "P5", Key: "k"}}, []Op{{Kind: "group", Scope: "s1", T: "D2", Group: "h"}}),
			mk("consumer-in-two-scopes", nil, []Op{{Kind: "get", Scope: "s1", T: "D4"}}, []Op{{Kind: "get", Scope: "s2", T: "D4"}}),
			mk("keyed-consumer-x2", nil, []Op{{Kind: "get", Scope: "s1", T: "P5", Key: "k"}}, []Op{{Kind: "get", Scope: "s2", T: "P5", Key: "k"}}),
		}
	}
	return nil
}

func registerLife(prop, title string) {
	mc.Register(&mc.Check{
		Prop:        prop,
		Rule:        "(a) configurations: every producer form set (<=2 of 21 templates) x consumer shape x lifetime pairing of the C04 enumeration, judged by the lifetime oracle; (b) histories: every sequence to depth 3 (quick) / 4 (thorough) over {CreateScope(provider|scope), 14 resolutions by type/key/group, Close} on <=3 scopes of a 16-registration container covering all forms for all lifetimes, each completed by closing the provider; (c) schedules: 2-3 goroutines resolving colliding identities, preemption bound 2 (3 thorough). Oracle: " + title + ". An outcome is the canonical observation string of one execution.",
		Assume:      []string{"instances are identified by the recorder (registration, invocation serial, output index) embedded in every value the harness constructors create"},
		MinOutcomes: 10,
		Jobs: func(tier string) []mc.Job {
			var jobs []mc.Job
			jobs = append(jobs, lifeHistCfg(prop, tier).jobs()...)
			if prop == "C02" {
				// a scoped two-output constructor one of whose outputs is nil
				for _, nilIdx := range []int{0, 1} {
					c := lifeHistCfg(prop, tier)
					c.Name = fmt.Sprintf("%s-hist/nil-output-%d", prop, nilIdx)
					c.Faults = map[string]string{"10:*": fmt.Sprintf("nil:%d", nilIdx)}
					c.Probes = []Op{{Kind: "get", T: "D5"}, {Kind: "get", T: "P5"}, {Kind: "get", T: "D4"}}
					c.MaxScopes = 2
					c.Depth++
					jobs = append(jobs, c.jobs()...)
				}
			}
			pb := 2
			if tier == "thorough" {
				pb = 3
			}
			spec := lifeSpec()
			m := NewModel(&spec)
			for _, sc := range lifeConcScenarios(prop) {
				sc := sc
				b := pb
				if len(sc.Threads) > 2 {
					b = pb - 1
				}
				jobs = append(jobs, mc.Job{Name: sc.Name, Weight: 50, Run: func(r *mc.Report) {
					exploreScenario(r, sc, mc.Bounds{Preempt: b}, func(e *Env, s *vsched.Sched) []Finding { return filterClauses(prop, lifeOracle(e, m)) })
				}})
			}
			for _, np := range []int{1, 2} {
				np := np
				jobs = append(jobs, mc.Job{Name: fmt.Sprintf("%s-forms-%d", prop, np), Weight: 5, Run: func(r *mc.Report) { lifeForms(r, prop, np) }})
			}
			return jobs
		},
	})
}

// lifeForms re-runs the C04 configuration enumeration under the lifetime oracle.
func lifeForms(r *mc.Report, prop string, nprod int) {
	forEachFormCase(r, nprod, func(c formCase) {
		var e *Env
		var m *Model
		ok := false
		s := seqOnce(func() { e, m, ok = runForm(c) })
		if !ok {
			return
		}
		r.Executions++
		r.States++
		r.Validated++
		r.Transitions += int64(len(e.Results))
		if e.Prov == nil {
			// whether a set builds is C04/C08's subject
			r.Outcome("forms: not buildable")
			return
		}
		r.Outcome(fmt.Sprintf("forms %v/%s/%s/%s | %d calls", c.Prod, c.Shape, c.ProdLife, c.ConsLife, len(e.W.Calls)))
		fs := filterClauses(prop, lifeOracle(e, m))
		fs = append(fs, genericFindings(nil, s)...)
		for _, f := range fs {
			f.F["quirks"] = quirks(e.W.Spec)
			r.Violate(f.F, f.Detail+fmt.Sprintf("\n  producers %v, consumer shape %s, lifetimes %s/%s", c.Prod, c.Shape, c.ProdLife, c.ConsLife), c)
		}
	})
}

func init() {
	registerLife("C01", "each singleton constructor ran exactly once, during Build; every hand-out of a singleton identity (result or constructor argument) is that one instance, for every output of multi-output constructors")
	registerLife("C02", "at most one successful construction per (scoped registration, scope); all hand-outs inside one scope identical; no instance crosses scopes; initializers ran exactly once per created scope, at creation")
	registerLife("C03", "every transient instance is handed out exactly once (result or constructor argument); every successful construction was delivered to a request site")
}
