package props

import (
	"sort"
	"encoding/json"
	"fmt"
	"strings"

	"github.com/junioryono/godi/v4/internal/vsched"
	"github.com/junioryono/godi/v4/verifmc/kit"
	"github.com/junioryono/godi/v4/verifmc/mc"
)

// C01 / C02 / C03 — the three lifetimes. One rich container, three views of
// the same oracle (LifetimeOracle + model-based probe/wiring oracle).

// lifeSpec exercises every producer form for every lifetime:
//
//	r0  singleton D0                         r1  singleton (P0,P1) two returns
//	r2  singleton resobj{P2, P3@k}           r3  singleton D1 as IA+IB
//	r4  singleton D2[g]   r5 singleton D2[g] r6  singleton instance P4
//	r7  transient D3(D0)                     r8  transient P5@k(D3)
//	r9  scoped D4(D0, D3, D3)                r10 scoped D5(D4, P0, IA) multi-out second output P... (kept single)
//	r11 scoped D2[h](D4)  r12 transient D2[h](D3)
//	r13 singleton D1@s(D3)  - singleton consuming a transient at Build
func lifeSpec() kit.Spec {
	return kit.Spec{Regs: []kit.Reg{
		{ID: 0, Life: "singleton", Outs: []kit.Out{{T: "D0"}}},
		{ID: 1, Life: "singleton", Outs: []kit.Out{{T: "P0"}, {T: "P1"}}},
		{ID: 2, Life: "singleton", ResObj: true, Outs: []kit.Out{{T: "P2"}, {T: "P3", Key: "k"}}},
		{ID: 3, Life: "singleton", Outs: []kit.Out{{T: "D1"}}, As: []string{"IA", "IB"}},
		{ID: 4, Life: "singleton", Outs: []kit.Out{{T: "D2"}}, Group: "g"},
		{ID: 5, Life: "singleton", Outs: []kit.Out{{T: "D2"}}, Group: "g", Deps: []kit.Dep{{T: "D0"}}},
		{ID: 6, Life: "singleton", Kind: "instance", Outs: []kit.Out{{T: "P4"}}},
		{ID: 7, Life: "transient", Outs: []kit.Out{{T: "D3"}}, Deps: []kit.Dep{{T: "D0"}}},
		{ID: 8, Life: "transient", Outs: []kit.Out{{T: "P5"}}, Name: "k", Deps: []kit.Dep{{T: "D3"}}},
		{ID: 9, Life: "scoped", Err: true, Outs: []kit.Out{{T: "D4"}}, Deps: []kit.Dep{{T: "D0"}, {T: "D3"}, {T: "D3"}}},
		{ID: 10, Life: "scoped", Outs: []kit.Out{{T: "D5"}, {T: "P5"}}, Deps: []kit.Dep{{T: "D4"}, {T: "P0"}, {T: "IA"}}},
		{ID: 11, Life: "scoped", Outs: []kit.Out{{T: "D2"}}, Group: "h", Deps: []kit.Dep{{T: "D4"}}},
		{ID: 12, Life: "transient", Outs: []kit.Out{{T: "D2"}}, Group: "h", Deps: []kit.Dep{{T: "D3"}}},
		{ID: 13, Life: "singleton", Outs: []kit.Out{{T: "D1"}}, Name: "s", Deps: []kit.Dep{{T: "D3"}}},
		{ID: 14, Life: "scoped", In: true, Outs: []kit.Out{{T: "P3"}}, Deps: []kit.Dep{{T: "D2", Group: "h"}, {T: "D2", Group: "g"}, {T: "P5", Key: "k"}, {T: "P3", Key: "k"}, {T: "scope"}}},
		{ID: 16, Life: "singleton", Kind: "instance", Outs: []kit.Out{{T: "P4"}}, Name: "i2"},
		{ID: 17, Life: "singleton", Kind: "instance", Outs: []kit.Out{{T: "P4"}}, Group: "gi"},
		{ID: 18, Life: "singleton", Kind: "instance", Outs: []kit.Out{{T: "P4"}}, Group: "gi"},
		{ID: 15, Life: "scoped", Kind: "void", Deps: []kit.Dep{{T: "P1"}, {T: "D3"}}},
	}}
}

var lifeProbes = []Op{
	{Kind: "get", T: "D0"}, {Kind: "get", T: "P1"}, {Kind: "get", T: "P3", Key: "k"}, {Kind: "get", T: "IB"},
	{Kind: "group", T: "D2", Group: "g"}, {Kind: "get", T: "P4"}, {Kind: "get", T: "P4", Key: "i2"}, {Kind: "group", T: "P4", Group: "gi"}, {Kind: "get", T: "D1", Key: "s"},
	{Kind: "get", T: "D3"}, {Kind: "get", T: "P5", Key: "k"},
	{Kind: "get", T: "D4"}, {Kind: "get", T: "P5"}, {Kind: "get", T: "D5"}, {Kind: "group", T: "D2", Group: "h"}, {Kind: "get", T: "P3"},
}

var lifeClauses = map[string][]string{
	"C01": {"singleton-"},
	"C02": {"double-construct", "two-instances-in-scope", "shared-across-scopes", "initializer-"},
	"C03": {"transient-"},
}

func filterClauses(prop string, fs []Finding) []Finding {
	var out []Finding
	for _, f := range fs {
		c := f.F["clause"]
		keep := false
		for _, p := range lifeClauses[prop] {
			if strings.HasPrefix(c, p) {
				keep = true
			}
		}
		// generic failures (panic, race, deadlock, wrong producer of the lifetime under test) always count
		switch c {
		case "panic", "thread-panic", "deadlock", "race", "build-failed":
			keep = true
		}
		if lf := f.F["life"]; lf != "" {
			want := map[string]string{"C01": "singleton", "C02": "scoped", "C03": "transient"}[prop]
			if lf == want {
				keep = true
			}
		}
		if keep {
			out = append(out, f)
		}
	}
	return out
}

// lifeOracle = lifetime invariants + model-based identity/argument checks,
// tagged with the lifetime of the registration concerned.
func lifeOracle(e *Env, m *Model) []Finding {
	if e.Prov == nil {
		return []Finding{{feat("clause", "build-failed"), fmt.Sprint(e.BuildErr)}}
	}
	out := e.LifetimeOracle()
	for _, f := range e.ProbeOracle(m) {
		// attribute to the lifetime of the probed identity's registration
		out = append(out, f)
	}
	out = append(out, e.WiringOracle(m)...)
	// tag probe findings with lifetimes
	for i := range out {
		if out[i].F["life"] != "" {
			continue
		}
		d := out[i].Detail
		for _, r := range e.W.Spec.Regs {
			if strings.Contains(d, fmt.Sprintf("r%d ", r.ID)) || strings.Contains(d, fmt.Sprintf("(r%d)", r.ID)) || strings.Contains(d, fmt.Sprintf("r%d:", r.ID)) {
				out[i].F["life"] = r.Life
				break
			}
		}
	}
	return out
}

func depth4(tier string) int {
	if tier == "thorough" {
		return 5
	}
	return 4
}

func lifeHistCfg(prop, tier string) *histCfg {
	spec := lifeSpec()
	m := NewModel(&spec)
	depth := 3
	if tier == "thorough" {
		depth = 4
	}
	return &histCfg{Name: prop + "-hist/life", Spec: spec, Probes: lifeProbes, MaxScopes: 3, Depth: depth,
		Final:  []Op{{Kind: "close", Scope: ""}, {Kind: "settle"}},
		Oracle: func(e *Env, s *vsched.Sched, h []Op) []Finding { return filterClauses(prop, lifeOracle(e, m)) }}
}

// ------------------------------------------------------------- concurrent scenarios

func lifeConcScenarios(prop string) []*Scenario {
	spec := lifeSpec()
	setup := []Op{{Kind: "scope", Bind: "s1"}, {Kind: "scope", Scope: "s1", Bind: "s2"}}
	final := []Op{{Kind: "settle"}, {Kind: "close", Scope: ""}, {Kind: "settle"}}
	mk := func(name string, faults map[string]string, threads ...[]Op) *Scenario {
		return &Scenario{Name: prop + "-conc/" + name, Spec: spec, Setup: setup, Threads: threads, Final: final, Faults: faults}
	}
	switch prop {
	case "C01":
		return []*Scenario{
			mk("type+key", nil, []Op{{Kind: "get", Scope: "s1", T: "D0"}, {Kind: "get", Scope: "s2", T: "P3", Key: "k"}}, []Op{{Kind: "get", Scope: "", T: "D0"}, {Kind: "get", Scope: "s2", T: "P3", Key: "k"}}),
			mk("group+alias", nil, []Op{{Kind: "group", Scope: "s2", T: "D2", Group: "g"}, {Kind: "get", Scope: "s1", T: "IA"}}, []Op{{Kind: "get", Scope: "", T: "IB"}, {Kind: "group", Scope: "", T: "D2", Group: "g"}}),
			mk("injected-vs-direct", nil, []Op{{Kind: "get", Scope: "s1", T: "D5"}}, []Op{{Kind: "get", Scope: "s2", T: "P0"}, {Kind: "get", Scope: "s2", T: "IA"}}),
			mk("with-scope-churn", nil, []Op{{Kind: "get", Scope: "s1", T: "P1"}}, []Op{{Kind: "get", Scope: "s2", T: "P1"}}, []Op{{Kind: "scope", Scope: "", Bind: "s3"}, {Kind: "get", Scope: "s3", T: "P1"}, {Kind: "close", Scope: "s3"}}),
		}
	case "C02":
		return []*Scenario{
			mk("direct+direct", nil, []Op{{Kind: "get", Scope: "s1", T: "D4"}}, []Op{{Kind: "get", Scope: "s1", T: "D4"}}),
			mk("direct+dependent", nil, []Op{{Kind: "get", Scope: "s1", T: "D4"}}, []Op{{Kind: "get", Scope: "s1", T: "D5"}}),
			mk("group+direct", nil, []Op{{Kind: "group", Scope: "s1", T: "D2", Group: "h"}}, []Op{{Kind: "get", Scope: "s1", T: "D4"}}),
			mk("first-output+second-output", nil, []Op{{Kind: "get", Scope: "s1", T: "D5"}}, []Op{{Kind: "get", Scope: "s1", T: "P5"}}),
			mk("direct+direct-first-fails", map[string]string{"9:1": "err"}, []Op{{Kind: "get", Scope: "s1", T: "D4"}}, []Op{{Kind: "get", Scope: "s1", T: "D4"}}),
			mk("three-resolvers-first-fails", map[string]string{"9:1": "err"}, []Op{{Kind: "get", Scope: "s1", T: "D4"}}, []Op{{Kind: "get", Scope: "s1", T: "D4"}}, []Op{{Kind: "get", Scope: "s1", T: "D4"}}),
			mk("parent+child", nil, []Op{{Kind: "get", Scope: "s1", T: "D4"}}, []Op{{Kind: "get", Scope: "s2", T: "D4"}}),
			mk("three-resolvers", nil, []Op{{Kind: "get", Scope: "s1", T: "D4"}}, []Op{{Kind: "get", Scope: "s1", T: "D4"}}, []Op{{Kind: "get", Scope: "s1", T: "P3"}}),
		}
	case "C03":
		return []*Scenario{
			mk("transient+transient", nil, []Op{{Kind: "get", Scope: "s1", T: "D3"}}, []Op{{Kind: "get", Scope: "s1", T: "D3"}}),
			mk("keyed+group", nil, []Op{{Kind: "get", Scope: "s1", T: "P5", Key: "k"}}, []Op{{Kind: "group", Scope: "s1", T: "D2", Group: "h"}}),
			mk("consumer-in-two-scopes", nil, []Op{{Kind: "get", Scope: "s1", T: "D4"}}, []Op{{Kind: "get", Scope: "s2", T: "D4"}}),
			mk("keyed-consumer-x2", nil, []Op{{Kind: "get", Scope: "s1", T: "P5", Key: "k"}}, []Op{{Kind: "get", Scope: "s2", T: "P5", Key: "k"}}),
		}
	}
	return nil
}

func registerLife(prop, title string) {
	mc.Register(&mc.Check{
		Prop:        prop,
		Rule:        "(a) configurations: every producer form set (<=2 of 21 templates) x consumer shape x lifetime pairing of the C04 enumeration, judged by the lifetime oracle; (b) histories: every sequence to depth 3 (quick) / 4 (thorough) over {CreateScope(provider|scope), 14 resolutions by type/key/group, Close} on <=3 scopes of a 16-registration container covering all forms for all lifetimes, each completed by closing the provider; (c) schedules: 2-3 goroutines resolving colliding identities, preemption bound 2 (3 thorough); (d, C01) two providers built from one collection and alive together: every history to depth 4 (5) over {use p1, use p2, close p1, close p2}: one construction per singleton per provider, nothing created for one provider handed out by the other; (e, C01) singleton multi-output constructors with a nil output (nil interface return, nil result-object field) under every map-iteration order within deviation bound 2 from both base orders: one verdict, and if Build succeeds one construction and one instance; (f, C01) singletons looked up while Build runs: 3 singletons, all 64 dependency edge sets x injected {Provider, Scope} x targets x registration orders, lookups by the constructor itself and by a goroutine it starts (all schedules within the bound); (g, C02) an output of a scoped multi-output registration removed and registered again by another constructor, both resolved concurrently; (h, C02) initializer histories with collection edits after Build and an initializer depending on a later one; (i, C03) no invocation of a multi-output transient constructor serves two request sites. Oracle: " + title + ". An outcome is the canonical observation string of one execution.",
		Assume:      []string{"instances are identified by the recorder (registration, invocation serial, output index) embedded in every value the harness constructors create"},
		MinOutcomes: 10,
		Jobs: func(tier string) []mc.Job {
			var jobs []mc.Job
			jobs = append(jobs, lifeHistCfg(prop, tier).jobs()...)
			if prop == "C02" {
				// a scoped two-output constructor one of whose outputs is nil
				for _, nilIdx := range []int{0, 1} {
					c := lifeHistCfg(prop, tier)
					c.Name = fmt.Sprintf("%s-hist/nil-output-%d", prop, nilIdx)
					c.Faults = map[string]string{"10:*": fmt.Sprintf("nil:%d", nilIdx)}
					c.Probes = []Op{{Kind: "get", T: "D5"}, {Kind: "get", T: "P5"}, {Kind: "get", T: "D4"}}
					c.MaxScopes = 2
					c.Depth++
					jobs = append(jobs, c.jobs()...)
				}
				// a scoped RESULT OBJECT one of whose fields is nil (always / on the first invocation only):
				// requesting that output must not re-create the sibling outputs handed out before
				for _, nilIdx := range []int{0, 1} {
					for _, when := range []string{"*", "1"} {
						spec := kit.Spec{Regs: []kit.Reg{
							{ID: 0, Life: "scoped", ResObj: true, Outs: []kit.Out{{T: "D0"}, {T: "D1", Key: "k"}}},
							{ID: 1, Life: "scoped", Outs: []kit.Out{{T: "D2"}}, Deps: []kit.Dep{{T: "D0"}}},
							{ID: 2, Life: "scoped", In: true, Outs: []kit.Out{{T: "D3"}}, Deps: []kit.Dep{{T: "D1", Key: "k"}}},
						}}
						m := NewModel(&spec)
						jobs = append(jobs, (&histCfg{Name: fmt.Sprintf("%s-hist/resobj-nil-field-%d-%s", prop, nilIdx, strings.Replace(when, "*", "always", 1)), Spec: spec,
							Faults: map[string]string{"0:" + when: fmt.Sprintf("nil:%d", nilIdx)},
							Probes: []Op{{Kind: "get", T: "D0"}, {Kind: "get", T: "D1", Key: "k"}, {Kind: "get", T: "D2"}, {Kind: "get", T: "D3"}}, MaxScopes: 2, Depth: depth4(tier), NoProvOps: true,
							Final:  []Op{{Kind: "close", Scope: ""}, {Kind: "settle"}},
							Oracle: func(e *Env, s *vsched.Sched, h []Op) []Finding {
								// the nil output itself is unresolvable (whatever error godi chooses) and the statement does not
								// say whether its constructor may be retried: only what was HANDED OUT is judged
								var keep []Finding
								for _, f := range filterClauses(prop, lifeOracle(e, m)) {
									switch f.F["clause"] {
									case "two-instances-in-scope", "shared-across-scopes", "panic", "thread-panic", "deadlock", "race", "build-failed":
										keep = append(keep, f)
									}
								}
								return keep
							}}).jobs()...)
					}
				}
			}
			if prop == "C02" {
				// scope initializers of a provider whose COLLECTION is edited after Build (initializers and
				// services removed from it): every scope the provider creates afterwards still runs each
				// initializer exactly once
				ispec := kit.Spec{Regs: []kit.Reg{
					{ID: 0, Life: "singleton", Outs: []kit.Out{{T: "D0"}}},
					{ID: 1, Life: "scoped", Kind: "void", Name: "i1", In: true, Deps: []kit.Dep{{T: "D0"}, {T: "void", Key: "i2"}}}, // ordered after i2, which is registered later
					{ID: 2, Life: "scoped", Kind: "void", Name: "i2"},
					{ID: 3, Life: "scoped", Kind: "voiderr", Name: "i3", Deps: []kit.Dep{{T: "P0"}}},
					{ID: 4, Life: "scoped", Outs: []kit.Out{{T: "P0"}}},
				}}
				im := NewModel(&ispec)
				jobs = append(jobs, (&histCfg{Name: "C02-hist/initializers-collection-edited-after-build", Spec: ispec,
					Probes: []Op{{Kind: "get", T: "P0"}}, MaxScopes: 3, Depth: depth4(tier), NoProvOps: true,
					Extra:  []Op{{Kind: "coll-remove", T: "void", Key: "i1"}, {Kind: "coll-remove", T: "void", Key: "i2"}, {Kind: "coll-remove", T: "P0"}},
					Final:  []Op{{Kind: "close", Scope: ""}, {Kind: "settle"}},
					Oracle: func(e *Env, s *vsched.Sched, h []Op) []Finding { return filterClauses(prop, lifeOracle(e, im)) }}).jobs()...)
			}
			if prop == "C03" || prop == "C02" {
				// groups whose members have different lifetimes, in every registration order of
				// {transient, scoped, singleton}: the group is requested repeatedly in one scope
				for oi, order := range [][]string{{"transient", "scoped", "singleton"}, {"scoped", "transient", "singleton"}, {"singleton", "scoped", "transient"}, {"transient", "singleton", "scoped"}, {"scoped", "singleton", "transient"}, {"singleton", "transient", "scoped"}} {
					spec := kit.Spec{Regs: []kit.Reg{{ID: 0, Life: "singleton", Outs: []kit.Out{{T: "D0"}}}}}
					for i, l := range order {
						spec.Regs = append(spec.Regs, kit.Reg{ID: 1 + i, Life: l, Outs: []kit.Out{{T: "D2"}}, Group: "m", Deps: []kit.Dep{{T: "D0"}}})
					}
					spec.Regs = append(spec.Regs, kit.Reg{ID: 4, Life: "scoped", In: true, Outs: []kit.Out{{T: "P3"}}, Deps: []kit.Dep{{T: "D2", Group: "m"}}})
					m := NewModel(&spec)
					jobs = append(jobs, (&histCfg{Name: fmt.Sprintf("%s-hist/mixed-group-%d", prop, oi), Spec: spec,
						Probes: []Op{{Kind: "group", T: "D2", Group: "m"}, {Kind: "get", T: "P3"}}, MaxScopes: 2, Depth: depth4(tier),
						Final:  []Op{{Kind: "close", Scope: ""}, {Kind: "settle"}},
						Oracle: func(e *Env, s *vsched.Sched, h []Op) []Finding { return filterClauses(prop, lifeOracle(e, m)) }}).jobs()...)
				}
			}
			pb := 2
			if tier == "thorough" {
				pb = 3
			}
			if prop == "C03" || prop == "C01" {
				// registrations whose constructors share code AND signature (closures of one factory; here: reflect.MakeFunc
				// functions of one type) resolved concurrently: whatever godi caches per function must not leak from one
				// registration's construction into the other's
				tspec := kit.Spec{Regs: []kit.Reg{
					{ID: 0, Life: "singleton", Outs: []kit.Out{{T: "D0"}}},
					{ID: 1, Life: "transient", Outs: []kit.Out{{T: "D1"}}, Deps: []kit.Dep{{T: "D0"}}},
					{ID: 2, Life: "transient", Outs: []kit.Out{{T: "P5"}}, Name: "x", Deps: []kit.Dep{{T: "D1"}}},
					{ID: 3, Life: "transient", Outs: []kit.Out{{T: "P5"}}, Name: "y", Deps: []kit.Dep{{T: "D1"}}},
					{ID: 4, Life: "scoped", Outs: []kit.Out{{T: "P5"}}, Name: "z", Deps: []kit.Dep{{T: "D1"}}},
					{ID: 5, Life: "singleton", Outs: []kit.Out{{T: "P5"}}, Name: "s", Deps: []kit.Dep{{T: "D1"}}},
				}}
				tm := NewModel(&tspec)
				mk := func(name string, threads ...[]Op) *Scenario {
					return &Scenario{Name: prop + "-conc/same-signature-" + name, Spec: tspec, Setup: []Op{{Kind: "scope", Bind: "s1"}, {Kind: "scope", Bind: "s2"}}, Threads: threads,
						Final: []Op{{Kind: "settle"}, {Kind: "close", Scope: ""}, {Kind: "settle"}}}
				}
				g := func(sc, key string) []Op { return []Op{{Kind: "get", Scope: sc, T: "P5", Key: key}} }
				for _, sc := range []*Scenario{
					mk("x+y", g("s1", "x"), g("s1", "y")),
					mk("x+z-other-scope", g("s1", "x"), g("s2", "z")),
					mk("y+x+singleton", g("s1", "y"), append(g("s2", "x"), g("s2", "s")...)),
				} {
					sc := sc
					jobs = append(jobs, mc.Job{Name: sc.Name, Weight: 40, Run: func(r *mc.Report) {
						exploreScenario(r, sc, mc.Bounds{Preempt: pb}, func(e *Env, s *vsched.Sched) []Finding {
							var keep []Finding
							for _, f := range lifeOracle(e, tm) {
								switch f.F["clause"] {
								case "wrong-producer", "wrong-argument", "transient-reused", "transient-constructed-not-delivered", "singleton-ctor-count", "singleton-two-instances", "double-construct", "registered-identity-unresolvable":
									keep = append(keep, f)
								}
							}
							return keep
						})
					}})
				}
			}
			if prop == "C02" {
				// ONE scoped registration behind two interface aliases, resolved concurrently through different aliases
				aspec := kit.Spec{Regs: []kit.Reg{
					{ID: 0, Life: "scoped", Outs: []kit.Out{{T: "D0"}}, As: []string{"IA", "IB"}},
					{ID: 1, Life: "scoped", Outs: []kit.Out{{T: "P0"}}, Deps: []kit.Dep{{T: "IA"}}},
					{ID: 2, Life: "scoped", In: true, Outs: []kit.Out{{T: "P1"}}, Deps: []kit.Dep{{T: "IB"}}},
					{ID: 3, Life: "scoped", Outs: []kit.Out{{T: "D1"}}, As: []string{"IA", "IB"}, Name: "k"},
				}}
				am := NewModel(&aspec)
				mk := func(name string, threads ...[]Op) *Scenario {
					return &Scenario{Name: "C02-conc/aliases-" + name, Spec: aspec, Setup: []Op{{Kind: "scope", Bind: "s1"}}, Threads: threads,
						Final: []Op{{Kind: "settle"}, {Kind: "close", Scope: ""}, {Kind: "settle"}}}
				}
				for _, sc := range []*Scenario{
					mk("direct", []Op{{Kind: "get", Scope: "s1", T: "IA"}}, []Op{{Kind: "get", Scope: "s1", T: "IB"}}),
					mk("keyed", []Op{{Kind: "get", Scope: "s1", T: "IA", Key: "k"}}, []Op{{Kind: "get", Scope: "s1", T: "IB", Key: "k"}}),
					mk("dependents", []Op{{Kind: "get", Scope: "s1", T: "P0"}}, []Op{{Kind: "get", Scope: "s1", T: "P1"}}),
					mk("direct+dependent", []Op{{Kind: "get", Scope: "s1", T: "IB"}}, []Op{{Kind: "get", Scope: "s1", T: "P0"}}),
				} {
					sc := sc
					jobs = append(jobs, mc.Job{Name: sc.Name, Weight: 40, Run: func(r *mc.Report) {
						exploreScenario(r, sc, mc.Bounds{Preempt: pb}, func(e *Env, s *vsched.Sched) []Finding { return filterClauses(prop, lifeOracle(e, am)) })
					}})
				}
			}
			if prop == "C02" {
				// "override one service": an output of a scoped multi-output registration is removed before
				// Build and its identity registered again by another constructor; both resolved concurrently
				for _, form := range []string{"resobj", "multi"} {
					ospec := kit.Spec{Regs: []kit.Reg{
						{ID: 0, Life: "scoped", ResObj: form == "resobj", Outs: []kit.Out{{T: "D0"}, {T: "D1"}}},
						{ID: 1, Life: "scoped", Outs: []kit.Out{{T: "D1"}}, RemoveFirst: []kit.Dep{{T: "D1"}}},
						{ID: 2, Life: "scoped", Outs: []kit.Out{{T: "P0"}}, Deps: []kit.Dep{{T: "D0"}}},
						{ID: 3, Life: "scoped", In: true, Outs: []kit.Out{{T: "P1"}}, Deps: []kit.Dep{{T: "D1"}}},
					}}
					om := NewModel(&ospec)
					mk := func(name string, threads ...[]Op) *Scenario {
						return &Scenario{Name: "C02-conc/overridden-output-" + form + "-" + name, Spec: ospec, Setup: []Op{{Kind: "scope", Bind: "s1"}}, Threads: threads,
							Final: []Op{{Kind: "get", Scope: "s1", T: "D1"}, {Kind: "get", Scope: "s1", T: "D0"}, {Kind: "get", Scope: "s1", T: "P1"}, {Kind: "settle"}, {Kind: "close", Scope: ""}, {Kind: "settle"}}}
					}
					for _, sc := range []*Scenario{
						mk("direct", []Op{{Kind: "get", Scope: "s1", T: "D0"}}, []Op{{Kind: "get", Scope: "s1", T: "D1"}}),
						mk("dependents", []Op{{Kind: "get", Scope: "s1", T: "P0"}}, []Op{{Kind: "get", Scope: "s1", T: "P1"}}),
					} {
						sc := sc
						jobs = append(jobs, mc.Job{Name: sc.Name, Weight: 40, Run: func(r *mc.Report) {
							exploreScenario(r, sc, mc.Bounds{Preempt: pb}, func(e *Env, s *vsched.Sched) []Finding {
								fs := filterClauses(prop, lifeOracle(e, om))
								// by identity: whatever the scope handed out for D1 is one instance
								var first *kit.Inst
								for _, rr := range e.Results {
									if rr.Op.Kind == "get" && rr.Op.T == "D1" && rr.Err == nil && rr.Panic == nil && !rr.Skipped {
										in := kit.InstOf(rr.Val)
										if first != nil && in != first {
											fs = append(fs, Finding{feat("clause", "two-instances-in-scope", "by", "identity"),
												fmt.Sprintf("scope s1 answered D1 with %s and later with %s", first.Label(), in.Label())})
										}
										if first == nil {
											first = in
										}
									}
								}
								return fs
							})
						}})
					}
				}
			}
			spec := lifeSpec()
			m := NewModel(&spec)
			for _, sc := range lifeConcScenarios(prop) {
				sc := sc
				b := pb
				if len(sc.Threads) > 2 && !strings.Contains(sc.Name, "first-fails") {
					b = pb - 1
				}
				ns := 1
				if strings.Contains(sc.Name, "first-fails") && len(sc.Threads) > 2 {
					ns = 8
				}
				for sh := 0; sh < ns; sh++ {
					sh := sh
					name := sc.Name
					if ns > 1 {
						name = fmt.Sprintf("%s#%d", sc.Name, sh)
					}
					jobs = append(jobs, mc.Job{Name: name, Weight: 50, Run: func(r *mc.Report) {
						exploreScenario(r, sc, mc.Bounds{Preempt: b, Shard: sh, NShards: ns}, func(e *Env, s *vsched.Sched) []Finding { return filterClauses(prop, lifeOracle(e, m)) })
					}})
				}
			}
			if prop == "C01" {
				jobs = append(jobs, mc.Job{Name: "C01-removed-outputs", Run: c01RemovedOutputs})
				jobs = append(jobs, mc.Job{Name: "C01-nil-output", Run: c01NilOutput})
				jobs = append(jobs, twoProvJob(prop, depth4(tier)))
				jobs = append(jobs, c01LocatorJobs(tier)...)
			}
			if prop == "C03" {
				jobs = append(jobs, rbJobs("C03", depth4(tier)+1)...)
			}
			nps := []int{1, 2}
			if tier == "thorough" {
				nps = append(nps, 3)
			}
			for _, np := range nps {
				np := np
				jobs = append(jobs, mc.Job{Name: fmt.Sprintf("%s-forms-%d", prop, np), Weight: 5, Run: func(r *mc.Report) { lifeForms(r, prop, np) }})
			}
			return jobs
		},
	})
}

// lifeForms re-runs the C04 configuration enumeration under the lifetime oracle.
func lifeForms(r *mc.Report, prop string, nprod int) {
	forEachFormCase(r, nprod, func(c formCase) {
		var e *Env
		var m *Model
		ok := false
		s := seqOnce(func() { e, m, ok = runForm(c) })
		if !ok {
			return
		}
		r.Executions++
		r.States++
		r.Validated++
		r.Transitions += int64(len(e.Results))
		if e.Prov == nil {
			// whether a set builds is C04/C08's subject
			r.Outcome("forms: not buildable")
			return
		}
		r.Outcome(fmt.Sprintf("forms %v/%s/%s/%s | %d calls", c.Prod, c.Shape, c.ProdLife, c.ConsLife, len(e.W.Calls)))
		fs := filterClauses(prop, lifeOracle(e, m))
		fs = append(fs, genericFindings(nil, s)...)
		for _, f := range fs {
			f.F["quirks"] = quirks(e.W.Spec)
			r.Violate(f.F, f.Detail+fmt.Sprintf("\n  producers %v, consumer shape %s, lifetimes %s/%s", c.Prod, c.Shape, c.ProdLife, c.ConsLife), c)
		}
	})
}

// c01RemovedOutputs: a singleton constructor with three outputs (multiple
// returns / result object) of which every subset is removed before Build: the
// constructor still runs exactly once and the remaining identities are its outputs.
func c01RemovedOutputs(r *mc.Report) {
	type rmCase struct {
		Form   string `json:"form"`
		Remove int    `json:"remove_mask"`
		Dep    bool   `json:"consumer"`
	}
	run := func(c rmCase) {
		r0 := kit.Reg{ID: 0, Life: "singleton", Outs: []kit.Out{{T: "P0"}, {T: "P1"}, {T: "P2"}}}
		keys := []string{"", "", ""}
		if c.Form == "resobj" {
			r0.ResObj = true
			r0.Outs[2].Key = "k"
			keys[2] = "k"
		}
		spec := kit.Spec{Regs: []kit.Reg{r0}}
		var e *Env
		var m *Model
		s := seqOnce(func() {
			e = NewEnv(&spec)
			e.Coll = godiNewCollection()
			m = &Model{Spec: &spec, Services: map[Ident]RegOut{}, Groups: map[Ident][]RegOut{}, regs: map[int]*kit.Reg{}}
			e.AddErrs = append(e.AddErrs, e.W.Add(e.Coll, &spec.Regs[0]))
			m.AddErr = append(m.AddErr, m.Add(&spec.Regs[0]))
			for i, t := range []string{"P0", "P1", "P2"} {
				if c.Remove&(1<<i) == 0 {
					continue
				}
				if keys[i] == "" {
					e.Coll.Remove(kit.TypeOf(t))
				} else {
					e.Coll.RemoveKeyed(kit.TypeOf(t), keys[i])
				}
				m.Remove(t, keys[i])
			}
			if c.Dep {
				// a second singleton consuming whatever remains of the first two outputs
				cons := kit.Reg{ID: 1, Life: "singleton", Outs: []kit.Out{{T: "D0"}}}
				for i, t := range []string{"P0", "P1"} {
					if c.Remove&(1<<i) == 0 {
						cons.Deps = append(cons.Deps, kit.Dep{T: t})
					}
				}
				spec.Regs = append(spec.Regs, cons)
				e.AddErrs = append(e.AddErrs, e.W.Add(e.Coll, &spec.Regs[1]))
				m.AddErr = append(m.AddErr, m.Add(&spec.Regs[1]))
			}
			e.curScope[0] = "#build"
			n0 := len(e.W.Calls)
			p, did := kit.Try(func() { e.Prov, e.BuildErr = e.Coll.Build() })
			if did {
				e.BuildPanic = p
			}
			for _, cl := range e.W.Calls[n0:] {
				e.CallScope[cl] = "#build"
			}
			if e.Prov != nil {
				e.Do(Op{Kind: "scope", Bind: "s1"})
				probeUniverse(e, "s1", []string{"P0", "P1", "P2", "D0"}, []string{"", "k"}, nil)
				probeUniverse(e, "", []string{"P0", "P1", "P2", "D0"}, []string{"", "k"}, nil)
				e.Do(Op{Kind: "close", Scope: ""})
			}
		})
		r.Executions++
		r.Validated++
		r.States++
		r.Transitions += int64(len(e.Results) + 2)
		r.Outcome(fmt.Sprintf("removed-outputs %s mask=%d consumer=%v | %s", c.Form, c.Remove, c.Dep, e.Summary()))
		var fs []Finding
		if c.Remove == 7 {
			// nothing of the registration is left: its constructor must not run at all
			if n := len(e.W.CallsOf(0)); n != 0 {
				fs = append(fs, Finding{feat("clause", "removed-ctor-ran"), fmt.Sprintf("all outputs removed, yet the constructor ran %d times", n)})
			}
		} else if e.Prov == nil {
			fs = append(fs, Finding{feat("clause", "build-failed", "form", c.Form), fmt.Sprintf("Build failed after removing outputs %03b: %v %v", c.Remove, e.BuildErr, e.BuildPanic)})
		} else {
			fs = append(fs, filterClauses("C01", lifeOracle(e, m))...)
		}
		fs = append(fs, genericFindings(nil, s)...)
		for _, f := range fs {
			f.F["removed"] = fmt.Sprint(c.Remove)
			r.Violate(f.F, f.Detail+fmt.Sprintf("\n  three-output singleton (%s), removed outputs mask %03b, consumer=%v", c.Form, c.Remove, c.Dep), c)
		}
	}
	if r.Only != nil {
		var c rmCase
		if json.Unmarshal(r.Only, &c) == nil && c.Form != "" {
			run(c)
		}
		return
	}
	for _, form := range []string{"multi", "resobj"} {
		for mask := 0; mask < 8; mask++ {
			for _, dep := range []bool{false, true} {
				run(rmCase{Form: form, Remove: mask, Dep: dep})
			}
		}
	}
}

func init() {
	registerLife("C01", "each singleton constructor ran exactly once, during Build; every hand-out of a singleton identity (result or constructor argument) is that one instance, for every output of multi-output constructors")
	registerLife("C02", "at most one successful construction per (scoped registration, scope); all hand-outs inside one scope identical; no instance crosses scopes; initializers ran exactly once per created scope, at creation")
	registerLife("C03", "every transient instance is handed out exactly once (result or constructor argument); every successful construction was delivered to a request site")
}

// c01NilOutput: a singleton constructor with several outputs one of which is nil (a nil
// interface value / a nil result-object field), plus a consumer of the non-nil output; every
// map-iteration order within the deviation bound from both base orders. Whatever godi decides to
// do with the nil output, (a) the decision does not depend on the iteration order, (b) if Build
// succeeds the constructor has run exactly once and the consumer holds the instance that is
// resolved afterwards.
type c01NilCase struct {
	Form    string `json:"form"` // multi-iface | resobj | resobj-iface
	Nil     int    `json:"nil"`
	Reverse bool   `json:"base_reverse"`
	Choices []int  `json:"choices,omitempty"`
}

func c01NilSpec(c c01NilCase) kit.Spec {
	r0 := kit.Reg{ID: 0, Life: "singleton"}
	switch c.Form {
	case "multi-iface":
		r0.Outs = []kit.Out{{T: "IA", Conc: "D1"}, {T: "IB", Conc: "D2"}}
	case "resobj":
		r0.ResObj = true
		r0.Outs = []kit.Out{{T: "D1"}, {T: "D2"}}
	case "resobj-iface":
		r0.ResObj = true
		r0.Outs = []kit.Out{{T: "IA", Conc: "D1"}, {T: "IB", Conc: "D2", Key: "k"}}
	}
	keep := r0.Outs[1-c.Nil]
	cons := kit.Reg{ID: 1, Life: "singleton", In: true, Outs: []kit.Out{{T: "P0"}}, Deps: []kit.Dep{{T: keep.T, Key: keep.Key}}}
	cons2 := kit.Reg{ID: 2, Life: "singleton", In: true, Outs: []kit.Out{{T: "P1"}}, Deps: []kit.Dep{{T: "P0"}, {T: keep.T, Key: keep.Key}}}
	return kit.Spec{Regs: []kit.Reg{cons2, r0, cons}}
}

func c01NilOutput(r *mc.Report) {
	type obs struct {
		verdict string
		fs      []Finding
	}
	runOne := func(c c01NilCase) obs {
		spec := c01NilSpec(c)
		keep := spec.Regs[1].Outs[1-c.Nil]
		e := NewEnv(&spec)
		e.W.Faults["0:*"] = fmt.Sprintf("nil:%d", c.Nil)
		e.Build()
		var o obs
		if e.BuildPanic != nil {
			o.fs = append(o.fs, Finding{feat("clause", "panic", "op", "build"), fmt.Sprint(e.BuildPanic)})
			o.verdict = "panic"
			return o
		}
		if e.Prov == nil {
			o.verdict = "fails:" + kit.ClassOf(e.BuildErr)
			return o
		}
		o.verdict = "ok"
		if n := len(e.W.CallsOf(0)); n != 1 {
			o.fs = append(o.fs, Finding{feat("clause", "singleton-ctor-count", "count", fmt.Sprint(n), "form", c.Form, "life", "singleton"),
				fmt.Sprintf("Build succeeded but the singleton constructor %s ran %d times", &spec.Regs[1], n)})
		}
		rr := e.Do(Op{Kind: "get", T: keep.T, Key: keep.Key})
		got := kit.InstOf(rr.Val)
		for _, cl := range e.W.Calls {
			if cl.Reg == 0 {
				continue
			}
			for _, a := range cl.Args {
				if a.Kind == "inst" && a.Inst.Reg == 0 && a.Inst != got {
					o.fs = append(o.fs, Finding{feat("clause", "singleton-two-instances", "form", c.Form, "life", "singleton"),
						fmt.Sprintf("consumer r%d was built with %s, but the singleton resolved afterwards is %s", cl.Reg, a.Inst.Label(), kit.Describe(rr.Val))})
				}
			}
		}
		e.Do(Op{Kind: "close", Scope: ""})
		return o
	}
	if r.Only != nil {
		var c c01NilCase
		if json.Unmarshal(r.Only, &c) == nil && c.Form != "" {
			vsched.BaseReverse = c.Reverse
			defer func() { vsched.BaseReverse = false }()
			var o obs
			if c.Choices == nil {
				c.Choices = []int{}
			}
			vsched.Run(c.Choices, func(s *vsched.Sched) { s.NoRace = true }, func() { o = runOne(c) })
			fmt.Println("verdict:", o.verdict)
			r.Executions++
			for _, f := range o.fs {
				r.Violate(f.F, f.Detail, c)
			}
		}
		return
	}
	for _, form := range []string{"multi-iface", "resobj", "resobj-iface"} {
		for n := 0; n < 2; n++ {
			verdicts := map[string]c01NilCase{}
			for _, rev := range []bool{false, true} {
				c := c01NilCase{Form: form, Nil: n, Reverse: rev}
				vsched.BaseReverse = rev
				var o obs
				st := mc.Explore(mc.Bounds{OrderDev: 2, NoRace: true, Deadline: r.Deadline}, func() { o = runOne(c) }, func(s *vsched.Sched, cost [2]int) bool {
					cc := c
					cc.Choices = s.Choices()
					if _, ok := verdicts[o.verdict]; !ok {
						verdicts[o.verdict] = cc
					}
					r.Outcome(fmt.Sprintf("nil-output %s nil=%d | %s", form, n, o.verdict))
					for _, f := range o.fs {
						r.Violate(f.F, f.Detail+fmt.Sprintf("\n  singleton %s constructor, output %d always nil, map-order choices %v (reversed base %v)", form, n, cc.Choices, rev), cc)
					}
					return true
				})
				vsched.BaseReverse = false
				r.AddStats(st)
			}
			if len(verdicts) > 1 {
				var l []string
				var first c01NilCase
				for v, c := range verdicts {
					l = append(l, v)
					first = c
				}
				sort.Strings(l)
				r.Violate(feat("clause", "singleton-nil-output-verdict-depends-on-order", "form", form, "life", "singleton"),
					fmt.Sprintf("a singleton %s constructor whose output %d is nil: Build's verdict depends on the map iteration order: %v", form, n, l), first)
			}
		}
	}
}
