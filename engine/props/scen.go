package props

import (
	"encoding/json"
	"fmt"
	"regexp"
	"strings"
	"time"

	"github.com/junioryono/godi/v4/internal/vsched"
	"github.com/junioryono/godi/v4/verifmc/kit"
	"github.com/junioryono/godi/v4/verifmc/mc"
)

type schedCase struct {
	Scenario *Scenario `json:"scenario"`
	Choices  []int     `json:"choices"`
	Bounds   mc.Bounds `json:"bounds"`
}

type oracleFn func(e *Env, s *vsched.Sched) []Finding

var siteRe = regexp.MustCompile(`^([a-z_]+\.go):\d+ `)

// stripLine turns "scope.go:301 scope.instances" into "scope.go scope.instances"
// so that feature vectors survive unrelated line shifts.
func stripLine(site string) string {
	return siteRe.ReplaceAllString(site, "$1 ")
}

var panicSiteRe = regexp.MustCompile(`(?m)^github\.com/junioryono/godi/v4(?:/internal/\w+)?\.\(?\*?(\w+)\)?\.(\w+)`)

// panicSite extracts the innermost godi function from a stack trace.
func panicSite(stack string) string {
	m := panicSiteRe.FindStringSubmatch(stack)
	if m == nil {
		return "?"
	}
	return m[1] + "." + m[2]
}

// generic findings every concurrent execution is checked for: races, panics
// escaping a thread, deadlocks.
func genericFindings(e *Env, s *vsched.Sched) []Finding {
	var out []Finding
	for _, rc := range s.Races {
		out = append(out, Finding{feat("clause", "race", "field", rc.Field),
			fmt.Sprintf("data race on %s: %s  vs  %s (%s)", rc.Field, rc.A, rc.B, rc.Kinds)})
	}
	for _, p := range s.Panics {
		out = append(out, Finding{feat("clause", "thread-panic", "msg", panicMsg(p)), "panic escaped a goroutine: " + p})
	}
	if s.Deadlock != "" {
		out = append(out, Finding{feat("clause", "deadlock"), "deadlock: " + s.Deadlock})
	}
	if e != nil {
		if e.BuildPanic != nil {
			out = append(out, Finding{feat("clause", "panic", "op", "build", "msg", panicMsg(fmt.Sprint(e.BuildPanic))), fmt.Sprintf("Build panicked: %v", e.BuildPanic)})
		}
		for _, r := range e.Results {
			if r.Panic != nil {
				out = append(out, Finding{feat("clause", "panic", "op", r.Op.Kind, "msg", panicMsg(fmt.Sprint(r.Panic))),
					fmt.Sprintf("%s panicked: %v", r.Op, r.Panic)})
			}
		}
	}
	return out
}

func panicMsg(p string) string {
	switch {
	case strings.Contains(p, "assignment to entry in nil map"):
		return "nil-map-assign"
	case strings.Contains(p, "nil pointer dereference"):
		return "nil-deref"
	case strings.Contains(p, "unlock of unlocked"):
		return "unlock-unlocked"
	case strings.Contains(p, "concurrent map"):
		return "concurrent-map"
	case strings.Contains(p, "injected panic"):
		return "injected"
	}
	if len(p) > 40 {
		p = p[:40]
	}
	return p
}

// exploreScenario enumerates all schedules of sc within b and applies the
// oracle to every execution.
func exploreScenario(r *mc.Report, sc *Scenario, b mc.Bounds, oracle oracleFn) {
	if r.Only != nil {
		var c schedCase
		if err := json.Unmarshal(r.Only, &c); err != nil {
			r.MachErr = append(r.MachErr, "bad replay case: "+err.Error())
			return
		}
		var e *Env
		s := mc.RunOne(c.Choices, c.Bounds, func() { c.Scenario.RunInto(&e) })
		r.Executions++
		fs := append(genericFindings(e, s), oracle(e, s)...)
		fmt.Println("outcome:", e.Summary())
		for _, l := range s.Trace {
			fmt.Println("  ", l)
		}
		for _, f := range fs {
			r.Violate(f.F, f.Detail, c)
		}
		return
	}
	if b.Deadline.IsZero() {
		b.Deadline = r.Deadline
	}
	var e *Env
	reproduced := map[string]bool{}
	if b.Shard == 0 {
		// determinism self-test: the default schedule run twice gives identical choices and observations
		var e1, e2 *Env
		s1 := mc.RunOne(nil, b, func() { sc.RunInto(&e1) })
		s2 := mc.RunOne(s1.Choices(), b, func() { sc.RunInto(&e2) })
		if e1 == nil || e2 == nil || fmt.Sprint(s1.Choices()) != fmt.Sprint(s2.Choices()) || e1.Summary() != e2.Summary() {
			r.MachErr = append(r.MachErr, "determinism self-test failed for scenario "+sc.Name)
			return
		}
	}
	st := mc.Explore(b, func() { sc.RunInto(&e) }, func(s *vsched.Sched, cost [2]int) bool {
		r.Outcome(sc.Name + " | " + e.Summary())
		fs := append(genericFindings(e, s), oracle(e, s)...)
		for _, f := range fs {
			f.F["scenario"] = scenFamily(sc.Name)
			sig := (&mc.Violation{Features: f.F}).Sig()
			c := schedCase{Scenario: sc, Choices: s.Choices(), Bounds: b}
			if !reproduced[sig] {
				reproduced[sig] = true
				// the same schedule must fail every time: re-run it twice
				for k := 0; k < 2; k++ {
					var e2 *Env
					s2 := mc.RunOne(c.Choices, b, func() { sc.RunInto(&e2) })
					ok := false
					for _, f2 := range append(genericFindings(e2, s2), oracle(e2, s2)...) {
						f2.F["scenario"] = scenFamily(sc.Name)
						if (&mc.Violation{Features: f2.F}).Sig() == sig {
							ok = true
						}
					}
					if !ok {
						r.MachErr = append(r.MachErr, fmt.Sprintf("violation %s of scenario %s not reproduced on replay", sig, sc.Name))
						return true
					}
				}
			}
			r.Violate(f.F, f.Detail+fmt.Sprintf("\n  scenario %s, preemptions=%d, choices=%v\n  outcome: %s", sc.Name, cost[0], s.Choices(), e.Summary()), c)
		}
		return true
	})
	r.AddStats(st)
	if e != nil {
		r.Sample(map[string]any{"scenario": sc, "schedules": st.Executions, "last_outcome": e.Summary()})
	}
}

// scenFamily drops the parameter suffix of a scenario name ("get-vs-close/3" -> "get-vs-close").
func scenFamily(n string) string {
	if i := strings.IndexByte(n, '/'); i >= 0 {
		return n[:i]
	}
	return n
}

// seqOnce runs a scenario body once under the scheduler with default choices
// (single-threaded scenarios: deterministic map order, controlled watchers).
func seqOnce(body func()) *vsched.Sched {
	return vsched.Run(nil, func(s *vsched.Sched) { s.NoRace = true }, body)
}

var _ = kit.Describe

func jsonUnmarshal(b []byte, v any) error { return json.Unmarshal(b, v) }

func timeNow() time.Time { return time.Now() }
