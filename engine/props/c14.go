package props

import (
	"fmt"
	"unsafe"

	"github.com/junioryono/godi/v4/internal/vsched"
	"github.com/junioryono/godi/v4/verifmc/kit"
	"github.com/junioryono/godi/v4/verifmc/mc"
)

// C14 — closing a scope releases everything held on its behalf.

func c14Spec(inits int) kit.Spec {
	s := kit.Spec{Regs: []kit.Reg{
		{ID: 0, Life: "singleton", Outs: []kit.Out{{T: "D0"}}},
		{ID: 1, Life: "scoped", Outs: []kit.Out{{T: "D1"}}, Deps: []kit.Dep{{T: "D0"}, {T: "scope"}, {T: "ctx"}}},
		{ID: 2, Life: "transient", Outs: []kit.Out{{T: "D2"}}, Deps: []kit.Dep{{T: "D0"}}},
		{ID: 3, Life: "scoped", Outs: []kit.Out{{T: "P3"}, {T: "P4"}}, Deps: []kit.Dep{{T: "D1"}, {T: "D2"}}},
	}}
	for i := 0; i < inits; i++ {
		s.Regs = append(s.Regs, kit.Reg{ID: 10 + i, Life: "scoped", Kind: "voiderr", Deps: []kit.Dep{{T: "D2"}, {T: "scope"}}})
	}
	return s
}

var c14Probes = []Op{{Kind: "get", T: "D1"}, {Kind: "get", T: "D2"}, {Kind: "get", T: "P4"}}

// c14Oracle is evaluated at the end of every history. The history runner has
// appended: settle. The oracle itself then closes every remaining scope and
// compares the provider's reachable-object count with the post-warm-up baseline.
func c14Oracle(e *Env, s *vsched.Sched, h []Op) []Finding {
	var out []Finding
	if e.Prov == nil {
		return []Finding{{feat("clause", "build-failed"), fmt.Sprint(e.BuildErr)}}
	}
	cm := closedModel(e.Results)
	closed := map[string]bool{}
	failed := map[string]bool{}
	for _, r := range e.Results {
		if r.Op.Kind == "scope" && !r.Skipped {
			if r.Err != nil || r.Panic != nil {
				failed[r.Op.Bind] = true
			}
		}
	}
	// which scopes does the model consider closed at the end?
	{
		open := map[string]string{}
		var closeTree func(n string)
		closeTree = func(n string) {
			closed[n] = true
			for c, p := range open {
				if p == n && !closed[c] {
					closeTree(c)
				}
			}
		}
		for _, r := range e.Results {
			if r.Skipped {
				continue
			}
			switch r.Op.Kind {
			case "scope":
				if r.Err == nil && !cm[r] {
					open[r.Op.Bind] = r.Op.Scope
				}
			case "close":
				if r.Op.Scope == "" {
					for n := range open {
						closed[n] = true
					}
				} else if _, ok := open[r.Op.Scope]; ok {
					closeTree(r.Op.Scope)
				}
			}
		}
		nOpen := 0
		for n := range open {
			if !closed[n] {
				nOpen++
			}
		}
		// 1. goroutines: exactly one watcher per open scope remains
		if len(s.Leaked) != nOpen {
			clause := "goroutine-left-behind"
			if len(s.Leaked) < nOpen {
				clause = "watcher-missing"
			}
			out = append(out, Finding{feat("clause", clause, "failed-creation", fmt.Sprint(len(failed) > 0)),
				fmt.Sprintf("%d goroutines are still waiting at the end, but %d scopes are open (closed: %v, failed creations: %v)", len(s.Leaked), nOpen, keys(closed), keys(failed))})
		}
	}
	reachProv := kit.Reach(e.Prov)
	var reachCaller map[unsafe.Pointer]bool
	if e.SharedCtx != nil {
		reachCaller = kit.Reach(e.SharedCtx)
	}
	for name, sr := range e.Scopes {
		if sr.S == nil || !closed[name] {
			continue
		}
		// 2. the context derived for the scope is cancelled
		if sr.S.Context().Err() == nil {
			out = append(out, Finding{feat("clause", "context-not-cancelled"), fmt.Sprintf("scope %s is closed but its context is not cancelled", name)})
		}
		// 3. nothing keeps the scope reachable
		p := kit.PtrOf(sr.S)
		if reachProv[p] {
			out = append(out, Finding{feat("clause", "scope-reachable", "from", "provider"), fmt.Sprintf("closed scope %s is still reachable from the provider", name)})
		}
		if reachCaller != nil && reachCaller[p] {
			out = append(out, Finding{feat("clause", "scope-reachable", "from", "caller-context"), fmt.Sprintf("closed scope %s is still reachable from the caller's long-lived context", name)})
		}
		if par := e.Scopes[sr.Parent]; par != nil && par.S != nil && !closed[sr.Parent] {
			if kit.Reach(par.S)[p] {
				out = append(out, Finding{feat("clause", "scope-reachable", "from", "parent"), fmt.Sprintf("closed scope %s is still reachable from its open parent %s", name, sr.Parent)})
			}
		}
	}
	// instances handed out by closed scopes are not reachable from the provider
	for _, r := range e.Results {
		if r.Op.Kind != "get" || r.Skipped || r.Err != nil || !closed[r.Op.Scope] {
			continue
		}
		in := kit.InstOf(r.Val)
		if in == nil {
			continue
		}
		if reg := e.reg(in.Reg); reg == nil || reg.Life == "singleton" {
			continue
		}
		if reachProv[kit.PtrOf(r.Val)] {
			out = append(out, Finding{feat("clause", "instance-reachable", "from", "provider"), fmt.Sprintf("%s created for closed scope %s is still reachable from the provider", in.Label(), r.Op.Scope)})
		}
	}
	// failed creations leave nothing behind: their instances are closed (C10 checks "exactly once") and, below, memory returns to the baseline
	for _, in := range e.W.Insts {
		if in.Disp && !in.Given && len(in.Closes) == 0 {
			owner := e.ownerOf(in)
			if failed[owner] {
				out = append(out, Finding{feat("clause", "failed-creation-left-instance"), fmt.Sprintf("%s created by the failed creation of %s was never closed", in.Label(), owner)})
			}
		}
	}
	return out
}

type c14Ext struct {
	base map[*Env]int
}

// c14Cfg wraps a history: warm-up cycle + baseline measurement before, close
// everything + measurement after.
func c14Cfgs(tier string) []*histCfg {
	depth := 5
	if tier == "thorough" {
		depth = 6
	}
	mk := func(name string, inits int, faults map[string]string, d int) *histCfg {
		c := &histCfg{Name: name, Spec: c14Spec(inits), Faults: faults, Probes: c14Probes, MaxScopes: 3, Depth: d, CtxKinds: []string{"shared"}, NoProvOps: true}
		c.Final = []Op{{Kind: "settle"}}
		c.Oracle = c14Oracle
		return c
	}
	out := []*histCfg{mk("c14-hist/plain", 0, nil, depth), mk("c14-hist/init2", 2, nil, depth-1)}
	{
		// nested scopes created with a nil context (inheriting the parent scope's context)
		c := mk("c14-hist/nilctx", 0, nil, depth-1)
		c.CtxKinds = []string{"shared", "nil"}
		out = append(out, c)
	}
	// disposables whose Close returns an error: the scope must be released all the same
	for _, fail := range [][]string{{"r1#1.0", "r1#2.0", "r1#3.0"}, {"r2#1.0", "r2#2.0", "r2#3.0", "r2#4.0"}} {
		c := mk("c14-hist/closefail-"+fail[0][:2], 0, nil, depth-1)
		c.CloseFail = fail
		out = append(out, c)
	}
	for n := 1; n <= 3; n++ {
		for pos := 0; pos < n; pos++ {
			for serial := 1; serial <= 2; serial++ {
				out = append(out, mk(fmt.Sprintf("c14-hist/init%d-fail%d#%d", n, pos, serial), n, map[string]string{fmt.Sprintf("%d:%d", 10+pos, serial+1): "err"}, depth-1))
			}
		}
	}
	return out
}

// c14Cycles: N create/(nest)/use/close cycles for growing N; the provider's
// reachable-object count and the thread count must return to the value after
// the first cycle (state-space closure => bounded for any N).
func c14Cycles(r *mc.Report) {
	if r.Only != nil {
		return
	}
	type variant struct {
		name  string
		inits int
		cycle []Op
		fault map[string]string
		// replace: the second output (D4) of a scoped two-return constructor is removed from the collection
		// and registered again as a SINGLETON before Build
		replace bool
	}
	variants := []variant{
		{"flat", 0, []Op{{Kind: "scope", Bind: "a", Ctx: "shared"}, {Kind: "get", Scope: "a", T: "P4"}, {Kind: "get", Scope: "a", T: "D2"}, {Kind: "close", Scope: "a"}}, nil, false},
		{"nested", 1, []Op{{Kind: "scope", Bind: "a", Ctx: "shared"}, {Kind: "scope", Scope: "a", Bind: "b", Ctx: "nil"}, {Kind: "get", Scope: "b", T: "P4"}, {Kind: "scope", Scope: "b", Bind: "c", Ctx: "shared"}, {Kind: "get", Scope: "c", T: "D1"}, {Kind: "close", Scope: "a"}}, nil, false},
		{"nested-child-first", 0, []Op{{Kind: "scope", Bind: "a", Ctx: "shared"}, {Kind: "scope", Scope: "a", Bind: "b", Ctx: "shared"}, {Kind: "get", Scope: "b", T: "D1"}, {Kind: "close", Scope: "b"}, {Kind: "close", Scope: "a"}}, nil, false},
		{"failing-creation", 2, []Op{{Kind: "scope", Bind: "a", Ctx: "shared"}, {Kind: "scope", Bind: "b", Ctx: "shared"}, {Kind: "close", Scope: "a"}, {Kind: "close", Scope: "b"}}, map[string]string{"11:*": "err"}, false},
		{"failing-nested-creation", 2, []Op{{Kind: "scope", Bind: "a", Ctx: "shared"}, {Kind: "scope", Scope: "a", Bind: "b", Ctx: "nil"}, {Kind: "close", Scope: "a"}}, map[string]string{"11:3": "err", "11:5": "err", "11:7": "err", "11:9": "err", "11:11": "err", "11:13": "err", "11:15": "err"}, false},
	}
	variants = append(variants, variant{name: "replaced-sibling-output", cycle: []Op{{Kind: "scope", Bind: "a", Ctx: "shared"}, {Kind: "get", Scope: "a", T: "D3"}, {Kind: "get", Scope: "a", T: "D4"}, {Kind: "close", Scope: "a"}}, replace: true})
	for _, v := range variants {
		spec := c14Spec(v.inits)
		if v.replace {
			spec.Regs = append(spec.Regs, kit.Reg{ID: 5, Life: "scoped", Outs: []kit.Out{{T: "D3"}, {T: "D4"}}, Deps: []kit.Dep{{T: "D1"}}},
				kit.Reg{ID: 6, Life: "singleton", Outs: []kit.Out{{T: "D4"}}})
		}
		var counts []int
		var threads []int
		var callerCounts []int
		var e *Env
		s := seqOnce(func() {
			e = NewEnv(&spec)
			for k, f := range v.fault {
				if k == "11:*" {
					// fail from the second scope creation on (the root scope must build)
					for i := 2; i < 40; i++ {
						e.W.Faults[fmt.Sprintf("11:%d", i)] = f
					}
					continue
				}
				e.W.Faults[k] = f
			}
			if v.replace {
				e.Coll = godiNewCollection()
				for i := range spec.Regs {
					if spec.Regs[i].ID == 6 {
						e.Coll.Remove(kit.TypeOf("D4"))
					}
					if err := e.W.Add(e.Coll, &spec.Regs[i]); err != nil {
						e.BuildErr = err
						return
					}
				}
				e.curScope[0] = "#build"
				e.Prov, e.BuildErr = e.Coll.Build()
				for _, cl := range e.W.Calls {
					e.CallScope[cl] = "#build"
				}
			} else {
				e.Build()
			}
			if e.Prov == nil {
				return
			}
			for cyc := 0; cyc < 6; cyc++ {
				for _, op := range v.cycle {
					e.Do(op)
				}
				e.Do(Op{Kind: "settle"})
				counts = append(counts, len(kit.Reach(e.Prov)))
				threads = append(threads, vsched.LiveThreads())
				if e.SharedCtx != nil {
					callerCounts = append(callerCounts, len(kit.Reach(e.SharedCtx)))
				}
			}
		})
		r.Executions++
		r.Validated++
		r.States += int64(len(counts))
		r.Transitions += int64(len(e.Results))
		r.Outcome(fmt.Sprintf("cycles/%s reach=%v threads=%v caller=%v", v.name, counts, threads, callerCounts))
		fs := genericFindings(e, s)
		if e.Prov == nil {
			fs = append(fs, Finding{feat("clause", "build-failed"), fmt.Sprint(e.BuildErr)})
		}
		for i := 2; i < len(counts); i++ {
			if counts[i] != counts[1] {
				fs = append(fs, Finding{feat("clause", "memory-grows", "root", "provider", "variant", v.name), fmt.Sprintf("objects reachable from the provider after cycles 1..%d: %v (must stay constant from the second cycle on)", len(counts), counts)})
				break
			}
		}
		for i := 1; i < len(threads); i++ {
			if threads[i] != threads[0] {
				fs = append(fs, Finding{feat("clause", "goroutines-grow", "variant", v.name), fmt.Sprintf("live goroutines after each cycle: %v", threads)})
				break
			}
		}
		for i := 2; i < len(callerCounts); i++ {
			if callerCounts[i] != callerCounts[1] {
				fs = append(fs, Finding{feat("clause", "memory-grows", "root", "caller-context", "variant", v.name), fmt.Sprintf("objects reachable from the caller's never-cancelled context after each cycle: %v", callerCounts)})
				break
			}
		}
		for _, f := range fs {
			r.Violate(f.F, f.Detail+"\n  cycle variant "+v.name, map[string]string{"variant": v.name})
		}
		r.Sample(map[string]any{"variant": v.name, "cycle": v.cycle, "reachable_after_each_cycle": counts, "threads": threads})
	}
}

func init() {
	mc.Register(&mc.Check{
		Prop:        "C14",
		Rule:        "histories: every sequence to depth 5 (quick) / 6 (thorough) over {CreateScope(provider|scope) with ONE shared cancellable caller context that is never cancelled (nested scopes also with a nil context), 3 resolutions, Close(scope|provider)} on <=3 scopes, with 0 / 2 scope initializers, with 1-3 initializers one of which fails at every position (2nd / 3rd scope creation), and with scoped / transient disposables whose Close returns an error; at the end of each history: one waiting goroutine per open scope and none else (scheduler thread table), closed scopes have a cancelled context and are unreachable (reflective reachability incl. unexported fields) from the provider, their open parent and the caller's long-lived context, their instances are unreachable from the provider, failed creations left no unclosed instance. Cycles: 5 cycle shapes x 6 repetitions: objects reachable from the provider / from the caller context and live goroutines are constant from the second cycle on (the reachable state closes, hence bounded for any N). distinct = canonical observation strings.",
		Assume:      []string{"reachability is computed by a reflective traversal that does not enter runtime type descriptors; goroutines are the scheduler's logical threads"},
		MinOutcomes: 6,
		Jobs: func(tier string) []mc.Job {
			jobs := []mc.Job{{Name: "c14-cycles", Run: c14Cycles}}
			for _, c := range c14Cfgs(tier) {
				jobs = append(jobs, c.jobs()...)
			}
			return jobs
		},
	})
}
