package props

import (
	"encoding/json"
	"fmt"
	"strings"

	"github.com/junioryono/godi/v4"
	"github.com/junioryono/godi/v4/verifmc/kit"
	"github.com/junioryono/godi/v4/verifmc/mc"
)

// Build verdicts must be a function of the SET of registrations the collection
// holds when Build is called - not of how the collection got there (earlier
// Builds, successful or failed; removals; re-registrations). Differential
// oracle: after every history over {Add variants, Remove, Build} the verdict
// of Build on the edited collection is compared with the verdict of Build on a
// FRESH collection that received exactly the surviving registrations, in their
// surviving order. No hand-written expected value is involved.

type rbOp struct {
	Kind string `json:"k"` // add | remove | build
	Name string `json:"name"`
}

// registration variants (IDs are assigned when applied)
var rbVariants = map[string]kit.Reg{
	"A-opt":    {Life: "singleton", In: true, Outs: []kit.Out{{T: "P0"}}, Deps: []kit.Dep{{T: "P1", Opt: true}}},
	"A-req":    {Life: "singleton", Outs: []kit.Out{{T: "P0"}}, Deps: []kit.Dep{{T: "P1"}}},
	"A-group":  {Life: "singleton", In: true, Outs: []kit.Out{{T: "P0"}}, Deps: []kit.Dep{{T: "P2", Group: "g"}}},
	"A-trans":  {Life: "transient", In: true, Outs: []kit.Out{{T: "P0"}}, Deps: []kit.Dep{{T: "P1", Key: "k", Opt: true}, {T: "P2", Group: "g"}}},
	"B-single": {Life: "singleton", Outs: []kit.Out{{T: "P1"}}},
	"B-scoped": {Life: "scoped", Outs: []kit.Out{{T: "P1"}}},
	"Bk-scope": {Life: "scoped", Outs: []kit.Out{{T: "P1"}}, Name: "k"},
	"G-single": {Life: "singleton", Outs: []kit.Out{{T: "P2"}}, Group: "g"},
	"G-scoped": {Life: "scoped", Outs: []kit.Out{{T: "P2"}}, Group: "g"},
	"C-scoped": {Life: "scoped", Outs: []kit.Out{{T: "P3"}}, Deps: []kit.Dep{{T: "P1"}}},
	"Bk-singl": {Life: "singleton", Outs: []kit.Out{{T: "P1"}}, Name: "k"},
	"Bk-trans": {Life: "transient", Outs: []kit.Out{{T: "P1"}}, Name: "k"},
	"Ck-scope": {Life: "scoped", In: true, Outs: []kit.Out{{T: "D0"}}, Deps: []kit.Dep{{T: "P1", Key: "k"}}},
	"U1":       {Life: "singleton", Outs: []kit.Out{{T: "P4"}}},
	"U2":       {Life: "scoped", Outs: []kit.Out{{T: "P5"}}},
}

var rbAlphabet = []rbOp{
	{"add", "A-opt"}, {"add", "A-req"}, {"add", "A-group"}, {"add", "A-trans"}, {"add", "B-single"}, {"add", "B-scoped"}, {"add", "Bk-scope"}, {"add", "G-single"}, {"add", "G-scoped"},
	{"add", "C-scoped"}, {"add", "Bk-singl"}, {"add", "Bk-trans"}, {"add", "Ck-scope"}, {"add", "U1"}, {"add", "U2"}, {"remove", "P1"}, {"remove", "P4"}, {"remove", "P0"}, {"removekeyed", "P1"}, {"build", ""},
}

type rbResult struct {
	verdicts []string // one per build of the history: "edited/fresh"
	fs       []Finding
	invalid  bool // the history contains a rejected Add (pruned)
}

func rbRun(h []rbOp) rbResult {
	var res rbResult
	spec := &kit.Spec{}
	w := kit.NewWorld(spec)
	coll := godi.NewCollection()
	type live struct {
		reg *kit.Reg
	}
	var alive []*kit.Reg
	nextID := 0
	bad := func(clause, d string, kv ...string) {
		res.fs = append(res.fs, Finding{feat(append([]string{"clause", clause}, kv...)...), d})
	}
	builds := 0
	for _, op := range h {
		switch op.Kind {
		case "add":
			r := rbVariants[op.Name]
			r.ID = nextID
			nextID++
			spec.Regs = append(spec.Regs, r)
			rp := &spec.Regs[len(spec.Regs)-1]
			if err := w.Add(coll, rp); err != nil {
				res.invalid = true
				return res
			}
			alive = append(alive, rp)
		case "remove", "removekeyed":
			key := ""
			if op.Kind == "removekeyed" {
				key = "k"
				coll.RemoveKeyed(kit.TypeOf(op.Name), "k")
			} else {
				coll.Remove(kit.TypeOf(op.Name))
			}
			var keep []*kit.Reg
			for _, r := range alive {
				if r.Group == "" && r.Name == key && len(r.Outs) == 1 && r.Outs[0].T == op.Name {
					continue
				}
				keep = append(keep, r)
			}
			alive = keep
		case "build":
			builds++
			// edited collection
			ncalls := len(w.Calls)
			var p1 godi.Provider
			var e1 error
			if pv, did := kit.Try(func() { p1, e1 = coll.Build() }); did {
				bad("panic", fmt.Sprintf("Build of the edited collection panicked: %v", pv), "op", "build")
				return res
			}
			v1 := "ok"
			if e1 != nil {
				v1 = kit.ClassOf(e1)
			}
			callsEdited := w.Calls[ncalls:]
			// fresh collection with the surviving registrations (same function values)
			fresh := godi.NewCollection()
			for _, r := range alive {
				if err := w.Add(fresh, r); err != nil {
					bad("reference-broken", fmt.Sprintf("the surviving registration %s was rejected by a fresh collection: %v", r, err))
					return res
				}
			}
			var p2 godi.Provider
			var e2 error
			if pv, did := kit.Try(func() { p2, e2 = fresh.Build() }); did {
				bad("panic", fmt.Sprintf("Build of the fresh collection panicked: %v", pv), "op", "build")
				return res
			}
			v2 := "ok"
			if e2 != nil {
				v2 = kit.ClassOf(e2)
			}
			res.verdicts = append(res.verdicts, v1+"/"+v2)
			if v1 != v2 {
				bad("verdict-depends-on-history", fmt.Sprintf("Build #%d of the edited collection: %s; a fresh collection holding the same %d registrations: %s\n    edited: %v\n    fresh:  %v",
					builds, v1, len(alive), v2, firstLineErr(e1), firstLineErr(e2)), "edited", v1, "fresh", v2)
			}
			if e1 == nil {
				// a successful Build must not have handed a scoped instance to a singleton / transient
				for _, cl := range callsEdited {
					holder := spec.Regs[cl.Reg]
					if holder.Life == "scoped" {
						continue
					}
					for _, a := range cl.Args {
						argInsts(a, func(in *kit.Inst) {
							if spec.Regs[in.Reg].Life == "scoped" && !in.Given {
								bad("captive", fmt.Sprintf("%s %s was constructed at Build #%d with scoped instance %s", holder.Life, &holder, builds, in.Label()), "holder", holder.Life)
							}
						})
					}
				}
				// and every registered plain identity resolves from a scope
				nres := len(w.Calls)
				if s, err := p1.CreateScope(nil); err == nil {
					for _, r := range alive {
						if r.Group != "" || len(r.Outs) != 1 {
							continue
						}
						var err error
						if r.Name != "" {
							_, err = s.GetKeyed(kit.TypeOf(r.Outs[0].T), r.Name)
						} else {
							_, err = s.Get(kit.TypeOf(r.Outs[0].T))
						}
						if err != nil && strings.Contains(kit.ClassOf(err), "notfound") {
							bad("notfound-after-build", fmt.Sprintf("Build #%d succeeded, yet resolving %s fails with 'service not found': %v", builds, r, firstLineErr(err)))
						}
					}
				}
				// an optional dependency that IS registered now must be injected, whatever earlier providers of
				// this collection found when it was not registered yet
				has := func(d kit.Dep) bool {
					for _, r := range alive {
						if d.Group == "" && r.Group == "" && len(r.Outs) == 1 && r.Outs[0].T == d.T && r.Name == d.Key {
							return true
						}
					}
					return false
				}
				for _, cl := range append(append([]*kit.Call{}, callsEdited...), w.Calls[nres:]...) {
					rg := spec.Regs[cl.Reg]
					for i, a := range cl.Args {
						if i < len(rg.Deps) && rg.Deps[i].Opt && rg.Deps[i].Group == "" && a.Kind == "nil" && has(rg.Deps[i]) {
							bad("optional-dependency-registered-but-nil", fmt.Sprintf("after Build #%d, %s was constructed with a nil optional dependency %s although that service is registered", builds, &rg, rg.Deps[i].T), "dep-life", func() string {
								for _, r := range alive {
									if len(r.Outs) == 1 && r.Outs[0].T == rg.Deps[i].T && r.Name == rg.Deps[i].Key {
										return r.Life
									}
								}
								return "?"
							}())
						}
					}
				}
			}
			if p1 != nil {
				p1.Close()
			}
			if p2 != nil {
				p2.Close()
			}
		}
	}
	return res
}

// rbClauses: which findings count for which property.
func rbKeep(prop string, f Finding) bool {
	switch f.F["clause"] {
	case "panic", "reference-broken":
		return true
	}
	switch prop {
	case "C06":
		return f.F["clause"] == "verdict-depends-on-history"
	case "C07":
		return f.F["clause"] == "captive" || (f.F["clause"] == "verdict-depends-on-history" && (strings.Contains(f.F["fresh"], "lifetime") || strings.Contains(f.F["edited"], "lifetime")))
	case "C03":
		return f.F["clause"] == "optional-dependency-registered-but-nil" && f.F["dep-life"] == "transient"
	case "C04":
		return f.F["clause"] == "optional-dependency-registered-but-nil"
	case "C08":
		return f.F["clause"] == "notfound-after-build" || (f.F["clause"] == "verdict-depends-on-history" && (strings.Contains(f.F["fresh"], "notfound") || strings.Contains(f.F["edited"], "notfound") || f.F["fresh"] == "ok"))
	}
	return false
}

func rbJobs(prop string, depth int) []mc.Job {
	var jobs []mc.Job
	for fi := range rbAlphabet {
		fi := fi
		if rbAlphabet[fi].Kind != "add" {
			continue // a history starts with a registration
		}
		jobs = append(jobs, mc.Job{Name: fmt.Sprintf("%s-rebuild/first-%s", prop, rbAlphabet[fi].Name), Weight: 4, Run: func(r *mc.Report) {
			run := func(h []rbOp) bool {
				var res rbResult
				s := seqOnce(func() { res = rbRun(h) })
				if res.invalid {
					return false
				}
				r.Executions++
				r.Validated++
				r.States++
				r.Transitions += int64(len(h))
				r.Outcome(fmt.Sprintf("rebuild-after-edit verdicts %v", res.verdicts))
				fs := append(res.fs, genericFindings(nil, s)...)
				for _, f := range fs {
					if rbKeep(prop, f) {
						var names []string
						for _, o := range h {
							names = append(names, strings.TrimSpace(o.Kind+" "+o.Name))
						}
						r.Violate(f.F, f.Detail+"\n  history: "+strings.Join(names, " ; "), h)
					}
				}
				if len(r.Samples) < 1 && len(h) == depth {
					r.Sample(map[string]any{"history": h, "verdicts": res.verdicts})
				}
				return true
			}
			if r.Only != nil {
				var h []rbOp
				if json.Unmarshal(r.Only, &h) == nil && len(h) > 0 && h[0] == rbAlphabet[fi] {
					run(h)
				}
				return
			}
			var rec func(h []rbOp, builds int)
			rec = func(h []rbOp, builds int) {
				last := h[len(h)-1]
				if last.Kind == "build" {
					if !run(h) {
						return
					}
				}
				if len(h) >= depth {
					return
				}
				for _, o := range rbAlphabet {
					if o.Kind == "build" && (last.Kind == "build" || builds >= 2) {
						continue
					}
					nb := builds
					if o.Kind == "build" {
						nb++
					}
					// a history is only judged at its builds: the last operation must be able to reach one
					if o.Kind != "build" && len(h)+1 >= depth {
						continue
					}
					rec(append(append([]rbOp{}, h...), o), nb)
				}
			}
			rec([]rbOp{rbAlphabet[fi]}, 0)
		}})
	}
	return jobs
}
