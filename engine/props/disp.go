package props

import (
	"errors"
	"fmt"
	"sort"
	"strings"

	"github.com/junioryono/godi/v4"
	"github.com/junioryono/godi/v4/internal/vsched"
	"github.com/junioryono/godi/v4/verifmc/kit"
	"github.com/junioryono/godi/v4/verifmc/mc"
)

// C10 / C11 / C12 — disposal: exactly once / order / completeness under errors.

// dispSpec: every service is disposable.
//
//	r0 singleton D0            r1 singleton D1(D0)         r2 scoped D2(D1)
//	r3 transient D3(D0)        r4 scoped (D4,D5)(D2,D3)    r5 scoped void(D3)
//	r6 singleton P0(D3)  - consumes a transient at Build (owned by the root scope)
func dispSpec(withInit bool) kit.Spec {
	s := kit.Spec{Regs: []kit.Reg{
		{ID: 0, Life: "singleton", Err: true, Outs: []kit.Out{{T: "D0"}}},
		{ID: 1, Life: "singleton", Err: true, Outs: []kit.Out{{T: "D1"}}, Deps: []kit.Dep{{T: "D0"}}},
		{ID: 2, Life: "scoped", Err: true, Outs: []kit.Out{{T: "D2"}}, Deps: []kit.Dep{{T: "D1"}}},
		{ID: 3, Life: "transient", Err: true, Outs: []kit.Out{{T: "D3"}}, Deps: []kit.Dep{{T: "D0"}}},
		{ID: 4, Life: "scoped", Err: true, Outs: []kit.Out{{T: "D4"}, {T: "D5"}}, Deps: []kit.Dep{{T: "D2"}, {T: "D3"}}},
		{ID: 6, Life: "singleton", Err: true, Outs: []kit.Out{{T: "P0"}}, Deps: []kit.Dep{{T: "D3"}}},
		// disposable concrete types registered under interface types that have no Close method
		{ID: 8, Life: "transient", Err: true, Outs: []kit.Out{{T: "D0"}}, As: []string{"IA"}},
		{ID: 9, Life: "scoped", Err: true, Outs: []kit.Out{{T: "IB", Conc: "D1"}}, Deps: []kit.Dep{{T: "IA"}}},
		// ONE disposable instance behind TWO interface aliases (keyed, so that they do not collide with r8/r9)
		{ID: 10, Life: "singleton", Err: true, Outs: []kit.Out{{T: "D2"}}, As: []string{"IA", "IB"}, Name: "ks"},
		{ID: 11, Life: "scoped", Err: true, Outs: []kit.Out{{T: "D3"}}, As: []string{"IA", "IB"}, Name: "kc"},
		{ID: 12, Life: "transient", Err: true, Outs: []kit.Out{{T: "D4"}}, As: []string{"IA", "IB"}, Name: "kt"},
		// a disposable singleton registered as a ready-made VALUE, received by a constructor-built disposable singleton
		{ID: 13, Life: "singleton", Kind: "instance", Outs: []kit.Out{{T: "D0"}}, Name: "iv"},
		{ID: 14, Life: "singleton", In: true, Err: true, Outs: []kit.Out{{T: "D1"}}, Name: "ivc", Deps: []kit.Dep{{T: "D0", Key: "iv"}, {T: "D1"}}},
		// an interface-typed scoped service whose dynamic type is plain on its first construction and disposable afterwards
		{ID: 15, Life: "scoped", Err: true, Outs: []kit.Out{{T: "IA", Conc: "P0", Alt: "D5", AltFrom: 2}}, Name: "dyn"},
		{ID: 16, Life: "transient", Err: true, Outs: []kit.Out{{T: "IB", Conc: "P1", Alt: "D5", AltFrom: 2}}, Name: "dyn"},
	}}
	if withInit {
		s.Regs = append(s.Regs,
			kit.Reg{ID: 5, Life: "scoped", Kind: "voiderr", Deps: []kit.Dep{{T: "D3"}}},
			kit.Reg{ID: 7, Life: "scoped", Kind: "voiderr", Deps: []kit.Dep{{T: "D2"}}})
	}
	return s
}

var dispProbes = []Op{{Kind: "get", T: "D2"}, {Kind: "get", T: "D3"}, {Kind: "get", T: "D5"}, {Kind: "get", T: "IB"}, {Kind: "get", T: "IA"}, {Kind: "get", T: "D1"}}

// aliased disposables: one instance reachable under two interface identities
// services whose disposability differs between invocations
var dispDynProbes = []Op{{Kind: "get", T: "IA", Key: "dyn"}, {Kind: "get", T: "IB", Key: "dyn"}, {Kind: "get", T: "D2"}}

var dispAliasProbes = []Op{{Kind: "get", T: "IA", Key: "kc"}, {Kind: "get", T: "IB", Key: "kc"}, {Kind: "get", T: "IA", Key: "kt"}, {Kind: "get", T: "IB", Key: "kt"}, {Kind: "get", T: "IB", Key: "ks"}, {Kind: "get", T: "D2"}}

func dispFilter(prop string, fs []Finding) []Finding {
	var out []Finding
	for _, f := range fs {
		c := f.F["clause"]
		switch prop {
		case "C10":
			if c == "never-closed" || c == "closed-twice" || c == "closed-early" || c == "touched" {
				out = append(out, f)
			}
		case "C11":
			if c == "not-reverse-creation-order" || c == "singleton-closed-before-scope" || c == "ancestor-closed-before-descendant" || c == "dependency-closed-while-dependent-open" {
				out = append(out, f)
			}
		}
		switch c {
		case "panic", "thread-panic", "deadlock", "race":
			out = append(out, f)
		}
	}
	return out
}

func dispOracle(prop string) func(e *Env, s *vsched.Sched, h []Op) []Finding {
	return func(e *Env, s *vsched.Sched, h []Op) []Finding {
		var fs []Finding
		fs = append(fs, e.DisposalOracle(true)...)
		if prop == "C11" {
			fs = append(fs, e.OrderOracle()...)
			fs = append(fs, e.HeldOpenOracle()...)
		}
		return dispFilter(prop, fs)
	}
}

var dispFinal = []Op{{Kind: "close", Scope: ""}, {Kind: "settle"}}

func dispHistCfgs(prop, tier string) []*histCfg {
	depth := 5
	if tier == "thorough" {
		depth = 6
	}
	var out []*histCfg
	out = append(out,
		&histCfg{Name: prop + "-hist/plain", Spec: dispSpec(false), Probes: dispProbes, MaxScopes: 3, Depth: depth, CtxKinds: []string{"cancel"}, Final: dispFinal, Oracle: dispOracle(prop)},
		&histCfg{Name: prop + "-hist/aliased", Spec: dispSpec(false), Probes: dispAliasProbes, MaxScopes: 2, Depth: depth, CtxKinds: []string{""}, Final: dispFinal, Oracle: dispOracle(prop)},
		&histCfg{Name: prop + "-hist/dynamic-type", Spec: dispSpec(false), Probes: dispDynProbes, MaxScopes: 3, Depth: depth, CtxKinds: []string{""}, NoProvOps: true, Final: dispFinal, Oracle: dispOracle(prop)},
		&histCfg{Name: prop + "-hist/init", Spec: dispSpec(true), Probes: dispProbes[:4], MaxScopes: 3, Depth: depth - 1, CtxKinds: []string{""}, Final: dispFinal, Oracle: dispOracle(prop)},
	)
	// scope churn: many children under one parent, created and closed in every order
	churnDepth := 7
	if tier == "thorough" {
		churnDepth = 9
	}
	out = append(out, &histCfg{Name: prop + "-hist/churn", Spec: dispSpec(false), Depth: churnDepth, Final: dispFinal, Oracle: dispOracle(prop),
		AutoGet: &Op{Kind: "get", T: "D2"}, AlphaFn: churnAlphabet})
	if prop == "C11" {
		// a scope whose creation FAILS in an initializer after earlier initializers (and their dependencies)
		// created disposables: the half-built scope is torn down in reverse creation order, too
		for _, reg := range []int{5, 7} {
			for serial := 1; serial <= 3; serial++ {
				for _, kind := range []string{"err", "panic:string"} {
					out = append(out, &histCfg{Name: fmt.Sprintf("%s-hist/fault-r%d#%d-%s", prop, reg, serial, kind), Spec: dispSpec(true),
						Faults: map[string]string{fmt.Sprintf("%d:%d", reg, serial): kind}, Probes: dispProbes[:3], MaxScopes: 3, Depth: depth - 2,
						CtxKinds: []string{""}, Final: dispFinal, Oracle: dispOracle(prop)})
				}
			}
		}
	}
	if prop == "C10" {
		// a multi-output constructor (result object / multiple returns / result object with error) whose
		// SECOND output is nil on its first invocation: the constructor runs again for that output and
		// re-creates the first one - both copies were created by the container and must be closed
		for _, form := range []string{"resobj", "multi", "multi-iface"} {
			for _, life := range []string{"scoped", "transient", "singleton"} {
				r0 := kit.Reg{ID: 0, Life: life, Err: true, ResObj: form == "resobj", Outs: []kit.Out{{T: "D0"}, {T: "D1"}}}
				if form == "multi-iface" {
					// the nil output is a nil INTERFACE (requested first: an error), its sibling is a live disposable
					r0.Outs = []kit.Out{{T: "D0"}, {T: "IA", Conc: "D1"}}
				}
				spec := kit.Spec{Regs: []kit.Reg{r0,
					{ID: 1, Life: "scoped", Outs: []kit.Out{{T: "D2"}}, Deps: []kit.Dep{{T: "D0"}}},
					{ID: 2, Life: "scoped", In: true, Outs: []kit.Out{{T: "D3"}}, Deps: []kit.Dep{{T: r0.Outs[1].T, Opt: true}, {T: "D0"}}}}}
				if life == "singleton" {
					spec.Regs = spec.Regs[:1]
				}
				out = append(out, &histCfg{Name: fmt.Sprintf("%s-hist/partial-nil-%s-%s", prop, form, life), Spec: spec,
					Faults: map[string]string{"0:1": "nil:1"}, Probes: []Op{{Kind: "get", T: "D0"}, {Kind: "get", T: map[bool]string{true: "IA", false: "D1"}[form == "multi-iface"]}, {Kind: "get", T: "D2"}, {Kind: "get", T: "D3"}}, MaxScopes: 2, Depth: depth - 1,
					CtxKinds: []string{""}, Final: dispFinal, Oracle: dispOracle(prop)})
			}
		}
		// fault positions: every constructor, invocation 1..3, error / panic / nil
		fd := depth - 2
		// a dependency chain without aliases, so that the LAST entry of the build order is a real constructor
		cspec := kit.Spec{Regs: []kit.Reg{
			{ID: 0, Life: "singleton", Err: true, Outs: []kit.Out{{T: "D0"}}},
			{ID: 1, Life: "singleton", Err: true, Outs: []kit.Out{{T: "D1"}}, Deps: []kit.Dep{{T: "D0"}}},
			{ID: 2, Life: "transient", Err: true, Outs: []kit.Out{{T: "D3"}}, Deps: []kit.Dep{{T: "D0"}}},
			{ID: 3, Life: "singleton", Err: true, Outs: []kit.Out{{T: "D2"}}, Deps: []kit.Dep{{T: "D1"}, {T: "D3"}}},
			{ID: 4, Life: "scoped", Kind: "voiderr", Deps: []kit.Dep{{T: "D3"}}},
			{ID: 5, Life: "scoped", Err: true, Outs: []kit.Out{{T: "D4"}}, Deps: []kit.Dep{{T: "D2"}}},
		}}
		// ... and the same chain alone: the last singleton is the last node of the whole build order
		for _, reg := range []int{0, 1, 2, 3} {
			out = append(out, &histCfg{Name: fmt.Sprintf("%s-hist/chain-only-fault-r%d#1-cancel-build", prop, reg), Spec: kit.Spec{Regs: cspec.Regs[:4]},
				Faults: map[string]string{fmt.Sprintf("%d:1", reg): "cancel-build"}, Probes: []Op{{Kind: "get", T: "D2"}, {Kind: "get", T: "D3"}}, MaxScopes: 2, Depth: fd,
				CtxKinds: []string{""}, Final: dispFinal, Oracle: dispOracle(prop)})
		}
		for _, reg := range []int{0, 1, 2, 3, 4} {
			for _, kind := range []string{"cancel-build", "err", "panic:string"} {
				out = append(out, &histCfg{Name: fmt.Sprintf("%s-hist/chain-fault-r%d#1-%s", prop, reg, kind), Spec: cspec,
					Faults: map[string]string{fmt.Sprintf("%d:1", reg): kind}, Probes: []Op{{Kind: "get", T: "D4"}, {Kind: "get", T: "D3"}}, MaxScopes: 2, Depth: fd,
					CtxKinds: []string{""}, Final: dispFinal, Oracle: dispOracle(prop)})
			}
		}
		for _, reg := range []int{10, 14} {
			// the remaining singletons: whichever is constructed last, the Build context is cancelled while it runs
			out = append(out, &histCfg{Name: fmt.Sprintf("%s-hist/fault-r%d#1-cancel-build", prop, reg), Spec: dispSpec(true),
				Faults: map[string]string{fmt.Sprintf("%d:1", reg): "cancel-build"}, Probes: dispProbes[:4], MaxScopes: 2, Depth: fd,
				CtxKinds: []string{""}, Final: dispFinal, Oracle: dispOracle(prop)})
		}
		for _, reg := range []int{0, 1, 2, 3, 4, 5, 6, 7, 8, 9} {
			for serial := 1; serial <= 3; serial++ {
				for _, kind := range []string{"err", "panic:string", "err:disposed", "cancel-build"} {
					if (reg == 0 || reg == 1 || reg == 6) && serial > 1 {
						continue // singletons are constructed once
					}
					if kind == "cancel-build" && serial > 1 {
						continue // the context of BuildWithContext cancelled while this constructor runs during Build
					}
					if kind == "err:disposed" && reg != 5 && reg != 7 && reg != 2 {
						continue // an error wrapping ANOTHER scope's disposed sentinel: initializers and one scoped service
					}
					if tier != "thorough" && serial == 3 {
						continue
					}
					out = append(out, &histCfg{Name: fmt.Sprintf("%s-hist/fault-r%d#%d-%s", prop, reg, serial, kind), Spec: dispSpec(true),
						Faults: map[string]string{fmt.Sprintf("%d:%d", reg, serial): kind}, Probes: dispProbes[:4], MaxScopes: 2, Depth: fd,
						CtxKinds: []string{""}, Final: dispFinal, Oracle: dispOracle(prop)})
				}
			}
		}
	}
	return out
}

func dispScenarios(prop string) []*Scenario {
	final := []Op{{Kind: "settle"}, {Kind: "close", Scope: ""}, {Kind: "settle"}}
	setup := []Op{{Kind: "scope", Bind: "s1", Ctx: "cancel"}}
	mk := func(name string, init bool, threads ...[]Op) *Scenario {
		return &Scenario{Name: prop + "-conc/" + name, Spec: dispSpec(init), Setup: setup, Threads: threads, Final: final}
	}
	pop := &Scenario{Name: prop + "-conc/get-multi-vs-close-populated-scope", Spec: dispSpec(false),
		Setup:   []Op{{Kind: "scope", Bind: "s1", Ctx: "cancel"}, {Kind: "get", Scope: "s1", T: "D2"}, {Kind: "get", Scope: "s1", T: "IB"}},
		Threads: [][]Op{{{Kind: "get", Scope: "s1", T: "D5"}}, {{Kind: "close", Scope: "s1"}}}, Final: final}
	return []*Scenario{
		pop,
		mk("get-scoped-vs-close-scope", false, []Op{{Kind: "get", Scope: "s1", T: "D2"}}, []Op{{Kind: "close", Scope: "s1"}}),
		mk("get-multi-vs-close-scope", false, []Op{{Kind: "get", Scope: "s1", T: "D5"}}, []Op{{Kind: "close", Scope: "s1"}}),
		mk("get-transient-vs-cancel", false, []Op{{Kind: "get", Scope: "s1", T: "D3"}}, []Op{{Kind: "cancel", Scope: "s1"}}),
		mk("get-multi-vs-close-provider", false, []Op{{Kind: "get", Scope: "s1", T: "D4"}}, []Op{{Kind: "close", Scope: ""}}),
		mk("provider-get-vs-close-provider", false, []Op{{Kind: "get", Scope: "", T: "D2"}}, []Op{{Kind: "close", Scope: ""}}),
		mk("create-scope-init-vs-close-provider", true, []Op{{Kind: "scope", Scope: "", Bind: "s2"}}, []Op{{Kind: "close", Scope: ""}}),
		mk("create-child-init-vs-close-provider", true, []Op{{Kind: "scope", Scope: "s1", Bind: "s2"}, {Kind: "get", Scope: "s2", T: "D4"}}, []Op{{Kind: "close", Scope: ""}}),
		mk("create-child-init-vs-close-scope", true, []Op{{Kind: "scope", Scope: "s1", Bind: "s2"}, {Kind: "get", Scope: "s2", T: "D4"}}, []Op{{Kind: "close", Scope: "s1"}}),
	}
}

func registerDisp(prop, rule string) {
	mc.Register(&mc.Check{
		Prop: prop, Rule: rule, MinOutcomes: 10,
		Assume: []string{"every Close of a harness instance records a global stamp; owners are derived from the operation during which the constructor ran", "registered instance values of scoped/transient lifetime are excluded (the property speaks of instances created by the container)"},
		Jobs: func(tier string) []mc.Job {
			var jobs []mc.Job
			for _, c := range dispHistCfgs(prop, tier) {
				jobs = append(jobs, c.jobs()...)
			}
			if prop == "C10" {
				jobs = append(jobs, twoProvJob(prop, depth4(tier)))
			}
			if prop == "C11" {
				for _, f := range []string{"s1", "s2", "prov", "cancel"} {
					f := f
					jobs = append(jobs, mc.Job{Name: "C11-closefail/first-" + f, Weight: 5, Run: func(r *mc.Report) { c12Seq(r, []string{f}, "C11") }})
				}
			}
			{
				pb := 2
				if tier == "thorough" {
					pb = 3
				}
				for _, sc := range dispScenarios(prop) {
					sc := sc
					o := dispOracle(prop)
					if prop == "C11" {
						// under schedules only the held-open consequence is decidable (late arrivals are unordered)
						o = func(e *Env, s *vsched.Sched, h []Op) []Finding { return dispFilter(prop, e.HeldOpenOracle()) }
					}
					jobs = append(jobs, mc.Job{Name: sc.Name, Weight: 50, Run: func(r *mc.Report) {
						exploreScenario(r, sc, mc.Bounds{Preempt: pb}, func(e *Env, s *vsched.Sched) []Finding { return o(e, s, nil) })
					}})
				}
			}
			return jobs
		},
	})
}

func init() {
	registerDisp("C10", "histories: every sequence to depth 5 (quick) / 6 (thorough) over {CreateScope(provider|scope), resolutions of scoped / transient / second output of a two-output constructor / disposables registered under interface types without Close (alias, interface-typed return) / singleton, Close(scope|provider), cancel} on <=3 scopes of an all-disposable container (with and without scope initializers), completed by closing the provider; multi-output constructors (result object / multiple returns; scoped, transient, singleton) whose second output is nil on the first invocation, so that a later request re-runs the constructor and re-creates the first output; fault positions: every constructor x invocation 1..2(3) x {returns error, panics, returns an error that wraps the disposed sentinel of some other scope, cancels the context of BuildWithContext (also on dependency chains whose last node is a singleton)} during Build, scope creation and resolution, over every history to depth 3/4; schedules: Resolve||Close(scope), Resolve||cancel, Resolve||Close(provider), CreateScope-with-initializers||Close, all schedules with <=2/3 preemptions. two providers built from one collection: every history to depth 4 (5) over {use p1, use p2, close p1, close p2} - closing one provider closes exactly what it owns, once. Oracle at the end of every execution: every container-created disposable closed exactly once, not before a Close/cancel of its owner, an ancestor or the provider started (or the creation that made it failed); non-disposables untouched. An outcome is the canonical observation string of one execution.")
	registerDisp("C11", "same histories as C10 without faults; oracle on the global stamp sequence: within one owner (each scope; the singleton set) close order is exactly reverse creation order; every close in a descendant scope precedes every own-instance close of its ancestor; every scope-owned close (root scope included) precedes every singleton close; no disposable is closed while a still-open established disposable that received it exists; the C12 fault sequences (every subset of failing Close methods on provider > s1 > {s2, s3}) under the same order oracle; failing initializers (error / panic, invocation 1-3): the half-built scope is torn down in reverse creation order. The property quantifies over configurations and histories; beyond it, the last clause (the stated consequence) is also checked on every schedule (bound 2/3) of the C10 overlap scenarios Resolve||Close(scope|provider), Resolve||cancel, CreateScope-with-initializers||Close, where 'established' means that the operation which constructed the instance completed successfully, or a completed operation handed it out - late arrivals the container refuses and disposes itself are not ordered.")
	mc.Register(&mc.Check{
		Prop: "C12", MinOutcomes: 10,
		Rule:   "fault sequences: a tree of 4 scopes (provider > s1 > {s2, s3}) owning up to 8 disposables (2 singletons, an aliased singleton, an interface-typed scoped service that is plain in one scope and disposable in the next, scoped + transient per scope; every subset of the 6 resolutions performed, so that scopes owning nothing occur): every subset (all 256 when everything is resolved, all subsets for <=4 scope-owned instances, singles and pairs otherwise) of the Close methods failing x every node closed first, then the same node again, then the provider twice; schedules: 2 and 3 concurrent Close on one scope, Close || cancel, Close(child) || Close(parent) || Close(provider), bound 2/3, with failing instances. Plus scope churn under one parent (children created / closed in every order, all / none / alternate instances failing) judged on stamps: when the first Close of a node returns everything its subtree owned has been attempted and the verdict matches the failures in that window. Plus an owned instance whose own Close method closes its scope (or, from a child scope, the parent) again, through Close(scope|parent|provider) and cancel. Oracle: every owned instance attempted exactly once; the first Close returns a DisposalError iff a failing instance is in its subtree, every injected error is reachable from exactly one returned error (none for closes done by the cancellation watcher), repeated / losing Closes return nil.",
		Assume: []string{"DisposalError.Errors is descended recursively together with errors.Unwrap"},
		Jobs:   c12Jobs,
	})
}

// ---------------------------------------------------------------- C12

func c12Spec() kit.Spec {
	return kit.Spec{Regs: []kit.Reg{
		{ID: 0, Life: "singleton", Outs: []kit.Out{{T: "D0"}}},
		{ID: 1, Life: "singleton", Outs: []kit.Out{{T: "D1"}}, Deps: []kit.Dep{{T: "D0"}}},
		{ID: 2, Life: "scoped", Outs: []kit.Out{{T: "D2"}}, Deps: []kit.Dep{{T: "D1"}}},
		{ID: 3, Life: "transient", Outs: []kit.Out{{T: "D3"}}, Deps: []kit.Dep{{T: "D0"}}},
		// one disposable singleton behind two interface aliases
		{ID: 4, Life: "singleton", Outs: []kit.Out{{T: "D4"}}, As: []string{"IA", "IB"}},
		// an interface-typed scoped service: plain on its first construction (in s1), disposable from the second on (s2)
		{ID: 5, Life: "scoped", Outs: []kit.Out{{T: "IA", Conc: "P0", Alt: "D5", AltFrom: 2}}, Name: "dyn"},
	}}
}

// reachable collects every *kit.InjErr reachable from err through
// DisposalError.Errors and Unwrap.
func reachable(err error, out map[*kit.InjErr]bool) {
	if err == nil {
		return
	}
	if ie, ok := err.(*kit.InjErr); ok {
		out[ie] = true
	}
	switch x := err.(type) {
	case *godi.DisposalError:
		for _, e := range x.Errors {
			reachable(e, out)
		}
	case godi.DisposalError:
		for _, e := range x.Errors {
			reachable(e, out)
		}
	}
	if u, ok := err.(interface{ Unwrap() error }); ok {
		reachable(u.Unwrap(), out)
	}
	if u, ok := err.(interface{ Unwrap() []error }); ok {
		for _, e := range u.Unwrap() {
			reachable(e, out)
		}
	}
}

var c12Labels = []string{"r4#1.0", "r0#1.0", "r1#1.0", "r2#1.0", "r3#1.0", "r2#2.0", "r3#2.0", "r2#3.0", "r3#3.0"}

func c12Setup() []Op {
	return []Op{
		{Kind: "scope", Bind: "s1", Ctx: "cancel"}, {Kind: "get", Scope: "s1", T: "IA", Key: "dyn"}, {Kind: "get", Scope: "s1", T: "D2"}, {Kind: "get", Scope: "s1", T: "D3"},
		{Kind: "scope", Scope: "s1", Bind: "s2"}, {Kind: "get", Scope: "s2", T: "IA", Key: "dyn"}, {Kind: "get", Scope: "s2", T: "D2"}, {Kind: "get", Scope: "s2", T: "D3"},
		{Kind: "scope", Scope: "s1", Bind: "s3"}, {Kind: "get", Scope: "s3", T: "D2"}, {Kind: "get", Scope: "s3", T: "D3"},
	}
}

// c12Oracle checks completeness / reporting / idempotence on one execution.
func c12Oracle(e *Env, s *vsched.Sched) []Finding {
	var out []Finding
	if e.Prov == nil {
		return []Finding{{feat("clause", "build-failed"), fmt.Sprint(e.BuildErr)}}
	}
	// which instance belongs to which owner
	subtree := func(node string) map[string]bool {
		m := map[string]bool{}
		if node == "" {
			m["#prov"], m["#root"] = true, true
			for n := range e.Scopes {
				m[n] = true
			}
			return m
		}
		m[node] = true
		for n := range e.Scopes {
			for _, a := range e.ancestors(n) {
				if a == node {
					m[n] = true
				}
			}
		}
		return m
	}
	injBy := map[string]*kit.InjErr{}
	for _, ie := range e.W.CloseErrs {
		injBy[fmt.Sprintf("r%d#%d.0", ie.Reg, ie.Serial)] = ie
	}
	reported := map[*kit.InjErr]int{}
	closedNodes := map[string]bool{}
	closes := 0
	nonNilPerNode := map[string]int{}
	viaWatcher := false
	for _, r := range e.Results {
		if r.Skipped || r.Panic != nil {
			continue
		}
		if r.Op.Kind == "cancel" {
			viaWatcher = true
		}
		if r.Op.Kind != "close" {
			continue
		}
		closes++
		got := map[*kit.InjErr]bool{}
		reachable(r.Err, got)
		for ie := range got {
			reported[ie]++
		}
		if r.Err != nil {
			nonNilPerNode[r.Op.Scope]++
			var de *godi.DisposalError
			if !errors.As(r.Err, &de) {
				out = append(out, Finding{feat("clause", "close-error-not-disposal-error"), fmt.Sprintf("%s returned %T %v", r.Op, r.Err, r.Err)})
			}
			if len(got) == 0 {
				out = append(out, Finding{feat("clause", "disposal-error-without-cause"), fmt.Sprintf("%s returned %v but no injected Close error is reachable from it", r.Op, r.Err)})
			}
		}
		closedNodes[r.Op.Scope] = true
	}
	for n, k := range nonNilPerNode {
		if k > 1 {
			out = append(out, Finding{feat("clause", "two-closes-returned-error"), fmt.Sprintf("%d Close calls on %s returned a non-nil error", k, orP(n))})
		}
	}
	// every instance in a closed subtree attempted exactly once
	for _, in := range e.W.Insts {
		if in.Given || !in.Disp {
			continue
		}
		owner := e.ownerOf(in)
		inClosed := false
		for n := range closedNodes {
			if subtree(n)[owner] {
				inClosed = true
			}
		}
		if viaWatcher && !inClosed {
			// cancel + settle closes the cancelled scope's subtree as well
			inClosed = subtree("s1")[owner] && e.Scopes["s1"] != nil
		}
		if !inClosed {
			if len(in.Closes) > 0 {
				out = append(out, Finding{feat("clause", "closed-outside-subtree"), fmt.Sprintf("%s (owner %s) was closed although no Close covered it", in.Label(), owner)})
			}
			continue
		}
		if len(in.Closes) != 1 {
			out = append(out, Finding{feat("clause", "attempt-count", "count", fmt.Sprint(len(in.Closes))),
				fmt.Sprintf("%s (owner %s) had Close called %d times, want exactly 1 (failing: %v)", in.Label(), owner, len(in.Closes), keys(e.W.CloseFail))})
		}
	}
	for lbl, ie := range injBy {
		n := reported[ie]
		if n > 1 {
			out = append(out, Finding{feat("clause", "error-reported-twice"), fmt.Sprintf("Close error of %s is reachable from %d returned errors", lbl, n)})
		}
		if n == 0 && !viaWatcher {
			out = append(out, Finding{feat("clause", "error-not-reported"), fmt.Sprintf("Close error of %s was returned by the instance but is reachable from no error returned by a Close call", lbl)})
		}
	}
	return out
}

// c12Timely is the completeness clause on stamps, for sequential histories: when the first Close of
// a node has returned, every disposable that node's subtree owned at that moment has been attempted
// (not merely "by the end of the run", when the provider's Close has swept up what was forgotten),
// and the Close returned an error exactly when one of those attempts failed.
func c12Timely(e *Env) []Finding {
	var out []Finding
	seen := map[string]bool{}
	for _, r := range e.Results {
		if r.Op.Kind != "close" || r.Skipped || r.Panic != nil || seen[r.Op.Scope] {
			continue
		}
		seen[r.Op.Scope] = true
		failedInWindow := false
		for _, in := range e.W.Insts {
			if in.Given || !in.Disp || in.Created > r.Start {
				continue
			}
			owner := e.ownerOf(in)
			covered := owner == r.Op.Scope
			if r.Op.Scope == "" {
				covered = true
			} else {
				for _, a := range e.ancestors(owner) {
					if a == r.Op.Scope {
						covered = true
					}
				}
			}
			if !covered {
				continue
			}
			if len(in.Closes) == 0 || in.Closes[0].Stamp > r.End {
				out = append(out, Finding{feat("clause", "owned-instance-open-after-close"),
					fmt.Sprintf("%s returned, but %s (owner %s, created before it started) had not been closed by then", r.Op, in.Label(), owner)})
				continue
			}
			if e.W.CloseFail[in.Label()] && in.Closes[0].Stamp > r.Start {
				failedInWindow = true
			}
		}
		if failedInWindow != (r.Err != nil) {
			out = append(out, Finding{feat("clause", "close-verdict", "want-error", fmt.Sprint(failedInWindow)),
				fmt.Sprintf("%s returned %v; a failing instance of its subtree was closed during it: %v", r.Op, r.Err, failedInWindow)})
		}
	}
	return out
}

func keys(m map[string]bool) []string {
	var l []string
	for k, v := range m {
		if v {
			l = append(l, k)
		}
	}
	sort.Strings(l)
	return l
}

type c12Case struct {
	Fail  []string `json:"fail"`
	First string   `json:"first"`
	Skip  int      `json:"skip"` // bit i set: resolution i of the setup is not performed (that scope owns less)
}

func c12Seq(r *mc.Report, firsts []string, prop string) {
	run := func(c c12Case) {
		var e *Env
		spec := c12Spec()
		s := seqOnce(func() {
			e = NewEnv(&spec)
			for _, l := range c.Fail {
				e.W.CloseFail[l] = true
			}
			e.Build()
			if e.Prov == nil {
				return
			}
			gi := 0
			for _, op := range c12Setup() {
				if op.Kind == "get" && op.T != "IA" {
					skip := c.Skip&(1<<gi) != 0
					gi++
					if skip {
						continue
					}
				}
				e.Do(op)
			}
			var first Op
			if c.First == "cancel" {
				first = Op{Kind: "cancel", Scope: "s1"}
			} else {
				first = Op{Kind: "close", Scope: strings.TrimPrefix(c.First, "prov")}
			}
			e.Do(first)
			e.Do(Op{Kind: "settle"})
			if c.First != "cancel" {
				e.Do(first)
			} else {
				e.Do(Op{Kind: "close", Scope: "s1"})
			}
			e.Do(Op{Kind: "close", Scope: ""})
			e.Do(Op{Kind: "close", Scope: ""})
			e.Do(Op{Kind: "settle"})
		})
		r.Executions++
		r.States++
		r.Validated++
		r.Transitions += int64(len(e.Results))
		r.Outcome(fmt.Sprintf("first=%s fail=%d skip=%d | %s", c.First, len(c.Fail), c.Skip, closeSummary(e)))
		fs := append(genericFindings(e, s), c12Oracle(e, s)...)
		if prop == "C11" {
			// the same fault sequences under the ORDER oracle: a failing Close somewhere in
			// the tree must not change the order in which everything else is disposed
			fs = dispFilter("C11", append(append(genericFindings(e, s), e.OrderOracle()...), e.HeldOpenOracle()...))
		}
		// sequential expectations: first close's verdict, later closes nil
		seen := map[string]bool{}
		for _, rr := range e.Results {
			if prop == "C11" {
				break
			}
			if rr.Op.Kind != "close" || rr.Skipped {
				continue
			}
			if seen[rr.Op.Scope] && rr.Err != nil {
				fs = append(fs, Finding{feat("clause", "repeated-close-returned-error"), fmt.Sprintf("second %s returned %v", rr.Op, rr.Err)})
			}
			if !seen[rr.Op.Scope] {
				// expected verdict: some failing instance is in the subtree and not yet closed by an earlier close
				exp := false
				for _, in := range e.W.Insts {
					if in.Disp && e.W.CloseFail[in.Label()] && len(in.Closes) > 0 && in.Closes[0].Stamp > rr.Start && in.Closes[0].Stamp < rr.End {
						exp = true
					}
				}
				if exp != (rr.Err != nil) {
					fs = append(fs, Finding{feat("clause", "close-verdict", "want-error", fmt.Sprint(exp)),
						fmt.Sprintf("%s returned %v; failing instances closed during it: %v (failing set %v)", rr.Op, rr.Err, exp, c.Fail)})
				}
			}
			seen[rr.Op.Scope] = true
		}
		for _, f := range fs {
			r.Violate(f.F, f.Detail+fmt.Sprintf("\n  failing %v, first close %s\n  %s", c.Fail, c.First, e.Summary()), c)
		}
		if len(r.Samples) < 2 {
			r.Sample(map[string]any{"case": c, "observed": closeSummary(e)})
		}
	}
	if r.Only != nil {
		var c c12Case
		if jsonUnmarshal(r.Only, &c) == nil && c.First != "" {
			run(c)
		}
		return
	}
	for _, first := range firsts {
		for skip := 0; skip < 64; skip++ {
			// labels of the instances that exist under this skip mask: serials are assigned in creation order
			labels := []string{"r0#1.0", "r1#1.0", "r4#1.0", "r5#2.0"}
			n2, n3 := 0, 0
			for gi := 0; gi < 6; gi++ {
				if skip&(1<<gi) != 0 {
					continue
				}
				if gi%2 == 0 {
					n2++
					labels = append(labels, fmt.Sprintf("r2#%d.0", n2))
				} else {
					n3++
					labels = append(labels, fmt.Sprintf("r3#%d.0", n3))
				}
			}
			if skip != 0 && len(labels) > 8 {
				// with few skipped resolutions use single and pair failures only (the full subsets are covered by skip=0)
				for i := range labels {
					run(c12Case{Fail: []string{labels[i]}, First: first, Skip: skip})
					for j := i + 1; j < len(labels); j++ {
						run(c12Case{Fail: []string{labels[i], labels[j]}, First: first, Skip: skip})
					}
				}
				continue
			}
			for mask := 0; mask < 1<<len(labels); mask++ {
				var fail []string
				for i, l := range labels {
					if mask&(1<<i) != 0 {
						fail = append(fail, l)
					}
				}
				run(c12Case{Fail: fail, First: first, Skip: skip})
			}
		}
	}
}

func closeSummary(e *Env) string {
	var b strings.Builder
	for _, r := range e.Results {
		if r.Op.Kind == "close" && !r.Skipped {
			fmt.Fprintf(&b, "%s=%s ", r.Op, r.Class)
		}
	}
	return b.String()
}

func c12Scenarios() []*Scenario {
	spec := c12Spec()
	var out []*Scenario
	fails := [][]string{nil, {"r2#1.0"}, {"r3#2.0", "r0#1.0"}}
	for fi, fail := range fails {
		mk := func(name string, threads ...[]Op) {
			out = append(out, &Scenario{Name: fmt.Sprintf("C12-conc/%s/fail%d", name, fi), Spec: spec, CloseFail: fail, Setup: c12Setup(), Threads: threads,
				Final: []Op{{Kind: "settle"}, {Kind: "close", Scope: "s1"}, {Kind: "close", Scope: ""}, {Kind: "close", Scope: ""}, {Kind: "settle"}}})
		}
		cl := func(s string) []Op { return []Op{{Kind: "close", Scope: s}} }
		mk("close-x2", cl("s1"), cl("s1"))
		mk("close-vs-cancel", cl("s1"), []Op{{Kind: "cancel", Scope: "s1"}})
		mk("child-parent-provider", cl("s2"), cl("s1"), cl(""))
		mk("close-x3-leaf", cl("s2"), cl("s2"), cl("s2"))
	}
	return out
}

func c12Jobs(tier string) []mc.Job {
	var jobs []mc.Job
	jobs = append(jobs, mc.Job{Name: "C12-reentrant-close", Run: c12Reentrant})
	{
		// scope churn under one parent (children created and closed in every order, then the parent), every
		// scoped instance failing its Close / none failing: judged on stamps
		churnDepth := 7
		if tier == "thorough" {
			churnDepth = 9
		}
		var all []string
		for i := 1; i <= 9; i++ {
			all = append(all, fmt.Sprintf("r2#%d.0", i))
		}
		for name, fail := range map[string][]string{"all-fail": all, "none-fail": nil, "odd-fail": {all[0], all[2], all[4], all[6]}} {
			jobs = append(jobs, (&histCfg{Name: "C12-hist/churn-" + name, Spec: dispSpec(false), Depth: churnDepth, Final: dispFinal, CloseFail: fail,
				AutoGet: &Op{Kind: "get", T: "D2"}, AlphaFn: churnAlphabet,
				Oracle: func(e *Env, s *vsched.Sched, h []Op) []Finding { return append(c12Oracle(e, s), c12Timely(e)...) }}).jobs()...)
		}
	}
	for _, f := range []string{"s1", "s2", "s3", "prov", "cancel"} {
		f := f
		jobs = append(jobs, mc.Job{Name: "C12-seq/first-" + f, Weight: 5, Run: func(r *mc.Report) { c12Seq(r, []string{f}, "C12") }})
	}
	pb := 2
	if tier == "thorough" {
		pb = 3
	}
	for _, sc := range c12Scenarios() {
		sc := sc
		b := pb
		if len(sc.Threads) > 2 {
			b = pb - 1
		}
		jobs = append(jobs, mc.Job{Name: sc.Name, Weight: 50, Run: func(r *mc.Report) {
			exploreScenario(r, sc, mc.Bounds{Preempt: b}, c12Oracle)
		}})
	}
	return jobs
}

// churnAlphabet: first create s1 under the provider, then create children of
// s1 (explicit contexts) and close open children in any order; closing s1 ends
// the history.
func churnAlphabet(h []Op) []Op {
	if len(h) == 0 {
		return []Op{{Kind: "scope", Bind: "s1"}}
	}
	open := map[string]bool{}
	var order []string
	n := 0
	for _, o := range h {
		switch o.Kind {
		case "scope":
			open[o.Bind] = true
			order = append(order, o.Bind)
			n++
		case "close":
			if o.Scope == "s1" {
				return nil
			}
			delete(open, o.Scope)
		}
	}
	var out []Op
	if n < 7 {
		out = append(out, Op{Kind: "scope", Scope: "s1", Bind: fmt.Sprintf("s%d", n+1)})
	}
	for _, name := range order {
		if open[name] {
			out = append(out, Op{Kind: "close", Scope: name})
		}
	}
	return out
}

// c12Reentrant: an owned instance whose Close method closes its own scope again (a unit of work that
// forwards Close to the scope it was injected with), and an instance of a child scope whose Close
// closes the PARENT. The repeated Close is an ordinary "Close called again": it returns nil, and
// the outer Close still closes everything once.
func c12Reentrant(r *mc.Report) {
	if r.Only != nil {
		var m map[string]string
		if jsonUnmarshal(r.Only, &m) != nil || m["variant"] == "" {
			return
		}
	}
	spec := kit.Spec{Regs: []kit.Reg{
		{ID: 0, Life: "singleton", Outs: []kit.Out{{T: "D0"}}},
		{ID: 1, Life: "scoped", Outs: []kit.Out{{T: "D1"}}, Deps: []kit.Dep{{T: "D0"}}},
		{ID: 2, Life: "scoped", Outs: []kit.Out{{T: "D2"}}, Deps: []kit.Dep{{T: "scope"}, {T: "D1"}}, CloseScope: true},
		{ID: 3, Life: "scoped", Outs: []kit.Out{{T: "D3"}}, Deps: []kit.Dep{{T: "D2"}}},
	}}
	variants := map[string][]Op{
		"close-scope":    {{Kind: "scope", Bind: "s1"}, {Kind: "get", Scope: "s1", T: "D3"}, {Kind: "close", Scope: "s1"}, {Kind: "close", Scope: "s1"}},
		"close-parent":   {{Kind: "scope", Bind: "s0"}, {Kind: "scope", Scope: "s0", Bind: "s1"}, {Kind: "get", Scope: "s1", T: "D3"}, {Kind: "get", Scope: "s0", T: "D1"}, {Kind: "close", Scope: "s0"}},
		"close-provider": {{Kind: "scope", Bind: "s1"}, {Kind: "get", Scope: "s1", T: "D3"}, {Kind: "scope", Bind: "s2"}, {Kind: "get", Scope: "s2", T: "D2"}},
		"cancel":         {{Kind: "scope", Bind: "s1", Ctx: "cancel"}, {Kind: "get", Scope: "s1", T: "D3"}, {Kind: "cancel", Scope: "s1"}, {Kind: "settle"}},
	}
	for _, name := range []string{"close-scope", "close-parent", "close-provider", "cancel"} {
		ops := variants[name]
		var e *Env
		s := seqOnce(func() {
			e = NewEnv(&spec)
			e.Build()
			if e.Prov == nil {
				return
			}
			for _, op := range ops {
				e.Do(op)
			}
			e.Do(Op{Kind: "close", Scope: ""})
			e.Do(Op{Kind: "settle"})
		})
		r.Executions++
		r.Validated++
		r.States++
		r.Transitions += int64(len(e.Results))
		r.Outcome("re-entrant close " + name + " | " + closeSummary(e))
		fs := genericFindings(e, s)
		for _, in := range e.W.Insts {
			if in.Disp && len(in.Closes) != 1 {
				fs = append(fs, Finding{feat("clause", "attempt-count", "count", fmt.Sprint(len(in.Closes))), fmt.Sprintf("%s had Close called %d times, want exactly 1", in.Label(), len(in.Closes))})
			}
			for _, err := range in.RecloseErr {
				if err != nil {
					fs = append(fs, Finding{feat("clause", "repeated-close-returned-error"), fmt.Sprintf("the Close issued again from %s's own Close method returned %v, want nil", in.Label(), err)})
				}
			}
		}
		for _, rr := range e.Results {
			if rr.Op.Kind == "close" && !rr.Skipped && rr.Err != nil {
				fs = append(fs, Finding{feat("clause", "close-verdict", "want-error", "false"), fmt.Sprintf("%s returned %v although no Close method failed", rr.Op, rr.Err)})
			}
		}
		for _, f := range fs {
			r.Violate(f.F, f.Detail+"\n  re-entrant Close, variant "+name, map[string]string{"variant": name})
		}
	}
}
