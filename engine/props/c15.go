package props

import (
	"context"
	"encoding/json"
	"errors"
	"fmt"
	"reflect"
	"strings"

	"github.com/junioryono/godi/v4"
	"github.com/junioryono/godi/v4/internal/vsched"
	"github.com/junioryono/godi/v4/verifmc/kit"
	"github.com/junioryono/godi/v4/verifmc/mc"
)

// C15 — failures are returned, classifiable errors - never panics or partial state.

type c15Case struct {
	Shape  string `json:"shape"`  // chain | diamond | group | instruct | optional
	Lives  string `json:"lives"`  // pattern name
	Reg    int    `json:"reg"`    // faulted registration
	Serial int    `json:"serial"` // faulted invocation
	Kind   string `json:"kind"`   // err | nil | panic:string | panic:error | panic:struct | panic:nil
	// an optional second fault at another (registration, invocation): err | panic:string
	Reg2    int    `json:"reg2,omitempty"`
	Serial2 int    `json:"serial2,omitempty"`
	Kind2   string `json:"kind2,omitempty"`
}

func c15Spec(shape, lives string) kit.Spec {
	l := func(i int) string {
		switch lives {
		case "scoped":
			return "scoped"
		case "singleton":
			return "singleton"
		case "transient":
			return "transient"
		case "mixed": // consumer scoped, then alternating
			return []string{"scoped", "transient", "singleton", "singleton", "transient"}[i%5]
		case "scoped-over-singleton":
			if i == 0 {
				return "scoped"
			}
			return "singleton"
		}
		return "scoped"
	}
	reg := func(id int, t string, deps ...kit.Dep) kit.Reg {
		return kit.Reg{ID: id, Life: l(id), Err: true, Outs: []kit.Out{{T: t}}, Deps: deps}
	}
	switch shape {
	case "chain":
		return kit.Spec{Regs: []kit.Reg{reg(0, "D0", kit.Dep{T: "D1"}), reg(1, "D1", kit.Dep{T: "D2"}), reg(2, "D2")}}
	case "diamond":
		return kit.Spec{Regs: []kit.Reg{reg(0, "D0", kit.Dep{T: "D1"}, kit.Dep{T: "D2"}), reg(1, "D1", kit.Dep{T: "D3"}), reg(2, "D2", kit.Dep{T: "D3"}), reg(3, "D3")}}
	case "group":
		a := reg(0, "D0", kit.Dep{T: "D1", Group: "g"})
		a.In = true
		g1 := reg(1, "D1")
		g1.Group = "g"
		g2 := reg(2, "D1", kit.Dep{T: "D3"})
		g2.Group = "g"
		return kit.Spec{Regs: []kit.Reg{a, g1, g2, reg(3, "D3")}}
	case "instruct":
		a := reg(0, "D0", kit.Dep{T: "D1"}, kit.Dep{T: "D2", Key: "k"}, kit.Dep{T: "D4", Opt: true})
		a.In = true
		c := reg(2, "D2")
		c.Name = "k"
		return kit.Spec{Regs: []kit.Reg{a, reg(1, "D1"), c}}
	case "optional":
		// the optional dependency IS registered; its constructor is what fails
		a := reg(0, "D0", kit.Dep{T: "D1", Opt: true}, kit.Dep{T: "D2", Key: "k", Opt: true})
		a.In = true
		c := reg(2, "D2")
		c.Name = "k"
		return kit.Spec{Regs: []kit.Reg{a, reg(1, "D1"), c}}
	case "optional-deep":
		// the optional dependency is registered and healthy itself; what fails is further down:
		// a member of a group it consumes, a keyed service, or a dependency of those
		a := reg(0, "D0", kit.Dep{T: "D1", Opt: true})
		a.In = true
		b := reg(1, "D1", kit.Dep{T: "D2", Group: "g"}, kit.Dep{T: "D4", Key: "k"})
		b.In = true
		g1 := reg(2, "D2")
		g1.Group = "g"
		g2 := reg(3, "D2", kit.Dep{T: "D3"})
		g2.Group = "g"
		k := reg(7, "D4", kit.Dep{T: "D3"}) // id 7: a singleton under the "mixed" pattern (a transient may not take a scoped service)
		k.Name = "k"
		return kit.Spec{Regs: []kit.Reg{a, b, g1, g2, reg(4, "D3"), k}}
	case "iface":
		// the dependency is declared as an interface type: a nil result is a nil interface
		p := kit.Reg{ID: 1, Life: l(1), Err: true, Outs: []kit.Out{{T: "IA", Conc: "D1"}}, Deps: []kit.Dep{{T: "D2"}}}
		return kit.Spec{Regs: []kit.Reg{reg(0, "D0", kit.Dep{T: "IA"}), p, reg(2, "D2")}}
	case "resobj-err":
		// a result-object constructor with an error second return
		p := kit.Reg{ID: 1, Life: l(1), Err: true, ResObj: true, Outs: []kit.Out{{T: "D1"}, {T: "D2", Key: "k"}}, Deps: []kit.Dep{{T: "D3"}}}
		a := reg(0, "D0", kit.Dep{T: "D1"}, kit.Dep{T: "D2", Key: "k"})
		a.In = true
		return kit.Spec{Regs: []kit.Reg{a, p, reg(3, "D3")}}
	case "multi":
		m := kit.Reg{ID: 1, Life: l(1), Err: true, Outs: []kit.Out{{T: "D1"}, {T: "D2"}}, Deps: []kit.Dep{{T: "D3"}}}
		return kit.Spec{Regs: []kit.Reg{reg(0, "D0", kit.Dep{T: "D2"}, kit.Dep{T: "D1"}), m, reg(3, "D3")}}
	}
	panic("shape")
}

func c15Run(c c15Case) (*Env, []Finding) {
	spec := c15Spec(c.Shape, c.Lives)
	m := NewModel(&spec)
	e := NewEnv(&spec)
	e.W.Faults[fmt.Sprintf("%d:%d", c.Reg, c.Serial)] = c.Kind
	if c.Kind2 != "" {
		e.W.Faults[fmt.Sprintf("%d:%d", c.Reg2, c.Serial2)] = c.Kind2
	}
	// kindFired: the kind of the fault whose constructor call happened last among calls[from:]
	curKind := c.Kind
	e.Build()
	var out []Finding
	bad := func(clause string, extra []string, d string) {
		f := feat(append([]string{"clause", clause, "fault", c.Kind}, extra...)...)
		out = append(out, Finding{f, d})
	}
	faultFired := func(from int) *kit.Call {
		var hit *kit.Call
		for _, cl := range e.W.Calls[from:] {
			if cl.Reg == c.Reg && cl.Serial == c.Serial {
				hit, curKind = cl, c.Kind
			}
			if c.Kind2 != "" && cl.Reg == c.Reg2 && cl.Serial == c.Serial2 {
				hit, curKind = cl, c.Kind2
			}
		}
		return hit
	}
	// checkErr verifies that err exposes the injected failure
	checkErr := func(where string, err error) {
		phase := []string{"phase", where}
		depOpt := "no"
		for _, r := range spec.Regs {
			for _, d := range r.Deps {
				if ts, _, _ := m.DepTargets(d); len(ts) == 1 && ts[0].Reg == c.Reg && d.Opt {
					depOpt = "yes"
				}
			}
		}
		phase = append(phase, "via-optional", depOpt)
		switch {
		case curKind == "nil":
			// a constructor returning nil: no specific error demanded
		case err == nil:
			bad("fault-swallowed", phase, fmt.Sprintf("the constructor of r%d (%s) failed with %q during %s but the operation reported success", c.Reg, spec.Regs[regIdx(&spec, c.Reg)].String(), curKind, where))
		case curKind == "err":
			var ie *kit.InjErr
			if !errors.As(err, &ie) || len(e.W.InjErrs) == 0 || ie != e.W.InjErrs[len(e.W.InjErrs)-1] {
				bad("constructor-error-not-wrapped", phase, fmt.Sprintf("%s error does not wrap the constructor's own error (errors.As fails): %v", where, firstLine(err.Error())))
			}
		default:
			var pe *godi.ConstructorPanicError
			if !errors.As(err, &pe) {
				bad("panic-not-exposed", phase, fmt.Sprintf("%s error is not a ConstructorPanicError: %v", where, firstLine(err.Error())))
				break
			}
			want := e.W.PanicVals[len(e.W.PanicVals)-1]
			ok := false
			switch curKind {
			case "panic:nil":
				ok = pe.Panic != nil // Go turns panic(nil) into *runtime.PanicNilError
			case "panic:error":
				ok = pe.Panic == want
			default:
				ok = reflect.DeepEqual(pe.Panic, want)
			}
			if !ok {
				bad("panic-value-lost", phase, fmt.Sprintf("ConstructorPanicError.Panic = %#v, constructor panicked with %#v", pe.Panic, want))
			}
		}
	}
	if e.BuildPanic != nil {
		bad("panic", []string{"op", "build"}, fmt.Sprintf("Build panicked: %v", e.BuildPanic))
		return e, out
	}
	if fired := faultFired(0); fired != nil {
		// the fault hit during Build
		checkErr("build", e.BuildErr)
		if e.BuildErr != nil || c.Kind == "nil" {
			if e.Prov == nil {
				out = append(out, e.DisposalOracle(true)...)
				return e, out
			}
		}
	} else if e.BuildErr != nil {
		bad("build-failed-without-fault", nil, fmt.Sprint(e.BuildErr))
		return e, out
	}
	if e.Prov == nil {
		return e, out
	}
	e.Do(Op{Kind: "scope", Bind: "s1"})
	top := Op{Kind: "get", Scope: "s1", T: "D0"}
	attempts := 3
	if c.Kind2 != "" {
		attempts = 4
	}
	for attempt := 1; attempt <= attempts; attempt++ {
		n0 := len(e.W.Calls)
		r := e.Do(top)
		if r.Panic != nil {
			bad("panic", []string{"op", "get"}, fmt.Sprintf("attempt %d: %s panicked: %v", attempt, top, r.Panic))
			continue
		}
		if fired := faultFired(n0); fired != nil {
			checkErr("resolution", r.Err)
		} else if r.Err != nil {
			bad("retry-failed", []string{"attempt", fmt.Sprint(attempt), "class", r.Class}, fmt.Sprintf("attempt %d (no fault pending) failed: %v", attempt, firstLine(r.Err.Error())))
		}
	}
	// everything else resolves too, in a second scope, like on a fresh container
	e.Do(Op{Kind: "scope", Bind: "s2"})
	r2 := e.Do(Op{Kind: "get", Scope: "s2", T: "D0"})
	if r2.Err != nil && c.Kind2 == "" && faultFired(0) != nil && c.Serial == 1 {
		bad("later-scope-failed", []string{"class", r2.Class}, fmt.Sprintf("a later scope cannot resolve after an earlier failure: %v", firstLine(r2.Err.Error())))
	}
	e.Do(Op{Kind: "close", Scope: ""})
	e.Do(Op{Kind: "settle"})
	// a failed resolution caches nothing wrong / rebuilds nothing that succeeded
	for _, f := range e.LifetimeOracle() {
		if c.Kind == "nil" && (f.F["clause"] == "transient-constructed-not-delivered") {
			continue
		}
		out = append(out, f)
	}
	for _, f := range e.WiringOracle(m) {
		// a typed nil pointer returned by the faulted constructor is a legitimate argument;
		// a nil INTERFACE is not an instance and must never be handed to a consumer
		if c.Kind == "nil" && !strings.Contains(f.Detail, "(IA") && !strings.Contains(f.Detail, "IA)") && !strings.Contains(f.Detail, ",IA") {
			continue
		}
		out = append(out, f)
	}
	for _, f := range e.DisposalOracle(true) {
		out = append(out, f)
	}
	for i := range out {
		if _, ok := out[i].F["fault"]; !ok {
			out[i].F["fault"] = c.Kind
		}
	}
	return e, out
}

func regIdx(spec *kit.Spec, id int) int {
	for i := range spec.Regs {
		if spec.Regs[i].ID == id {
			return i
		}
	}
	return 0
}

func c15Faults(r *mc.Report, shape string) {
	run := func(c c15Case) {
		var e *Env
		var fs []Finding
		s := seqOnce(func() { e, fs = c15Run(c) })
		r.Executions++
		r.Validated++
		r.States++
		r.Transitions += int64(len(e.Results) + 1)
		r.Outcome(fmt.Sprintf("%s/%s r%d#%d %s r%d#%d %s | %s", c.Shape, c.Lives, c.Reg, c.Serial, c.Kind, c.Reg2, c.Serial2, c.Kind2, e.Summary()))
		fs = append(fs, genericFindings(nil, s)...)
		for _, f := range fs {
			f.F["shape"] = c.Shape
			r.Violate(f.F, f.Detail+fmt.Sprintf("\n  shape %s, lifetimes %s, fault %s at r%d invocation %d (second fault: %q at r%d invocation %d)\n  %s", c.Shape, c.Lives, c.Kind, c.Reg, c.Serial, c.Kind2, c.Reg2, c.Serial2, e.Summary()), c)
		}
		if len(r.Samples) < 2 && c.Serial == 1 && c.Reg == 1 {
			r.Sample(map[string]any{"case": c, "observed": e.Summary()})
		}
	}
	if r.Only != nil {
		var c c15Case
		if json.Unmarshal(r.Only, &c) == nil && c.Shape == shape {
			run(c)
		}
		return
	}
	for _, lives := range []string{"scoped", "singleton", "transient", "mixed", "scoped-over-singleton"} {
		spec := c15Spec(shape, lives)
		for _, reg := range spec.Regs {
			for serial := 1; serial <= 3; serial++ {
				for _, kind := range []string{"err", "nil", "panic:string", "panic:error", "panic:struct", "panic:nil"} {
					run(c15Case{Shape: shape, Lives: lives, Reg: reg.ID, Serial: serial, Kind: kind})
				}
			}
		}
		if !c15Pairs {
			continue
		}
		// (thorough) two faults per execution: every pair of distinct (registration, invocation<=2) positions x {err, panic}^2
		type pos struct{ reg, serial int }
		var ps []pos
		for _, reg := range spec.Regs {
			for serial := 1; serial <= 2; serial++ {
				ps = append(ps, pos{reg.ID, serial})
			}
		}
		for i, a := range ps {
			for _, b := range ps[i+1:] {
				for _, k1 := range []string{"err", "panic:string"} {
					for _, k2 := range []string{"err", "panic:string"} {
						run(c15Case{Shape: shape, Lives: lives, Reg: a.reg, Serial: a.serial, Kind: k1, Reg2: b.reg, Serial2: b.serial, Kind2: k2})
					}
				}
			}
		}
	}
}

// c15Pairs: (thorough) also explore two faults per execution.
var c15Pairs bool

// ---- API inputs: nothing panics

type thing struct{ x int }
type iface interface{ M() }

func c15Inputs(r *mc.Report) {
	if r.Only != nil {
		return
	}
	type probe struct {
		name string
		f    func()
		must bool // a Must* helper: panics iff the plain call errs (checked separately)
	}
	var probes []probe
	add := func(name string, f func()) { probes = append(probes, probe{name: name, f: f}) }
	ctor := func() *thing { return &thing{} }
	var nilCtor func() *thing
	var nilPtr *thing
	tThing := reflect.TypeOf((*thing)(nil))
	var nilCtx context.Context
	services := map[string]any{"nil": nil, "typed-nil-func": nilCtor, "typed-nil-ptr": nilPtr, "zero-int": 0, "string": "x", "struct": thing{}, "chan": make(chan int), "func-no-return": func() {}, "func-only-error": func() error { return nil },
		"func-returning-chan": func() chan int { return nil }, "func-variadic": func(xs ...int) *thing { return nil }, "func-3-returns": func() (*thing, int, error) { return nil, 0, nil }, "ctor": ctor,
		"func-taking-chan": func(c chan int) *thing { return nil }, "func-taking-in-and-more": func(in struct{ godi.In }, x *thing) *thing { return nil }, "map": map[string]int{}, "slice": []int{1}}
	optsets := map[string][]godi.AddOption{"none": nil, "nil-option": {nil}, "name+group": {godi.Name("a"), godi.Group("b")}, "backquote": {godi.Name("a`b")}, "empty-name": {godi.Name("")}, "empty-group": {godi.Group("")},
		"as-non-interface": {godi.As[thing]()}, "as-not-implemented": {godi.As[iface]()}, "as-ctx": {godi.As[context.Context]()}, "group-backquote": {godi.Group("`")}}
	for sn, sv := range services {
		for on, ov := range optsets {
			sn, sv, on, ov := sn, sv, on, ov
			add("AddSingleton("+sn+","+on+")", func() { godi.NewCollection().AddSingleton(sv, ov...) })
			add("AddScoped("+sn+","+on+")", func() { godi.NewCollection().AddScoped(sv, ov...) })
			add("module AddTransient("+sn+","+on+")", func() { godi.NewCollection().AddModules(godi.NewModule("m", godi.AddTransient(sv, ov...), nil)) })
		}
	}
	mk := func() (godi.Collection, godi.Provider, godi.Scope) {
		c := godi.NewCollection()
		c.AddSingleton(ctor)
		c.AddScoped(func() *kit.P0 { return &kit.P0{} }, godi.Name("k"))
		c.AddTransient(func() *kit.P1 { return &kit.P1{} }, godi.Group("g"))
		p, _ := c.Build()
		s, _ := p.CreateScope(context.Background())
		return c, p, s
	}
	types := map[string]reflect.Type{"nil": nil, "registered": tThing, "unregistered": reflect.TypeOf(0), "iface": reflect.TypeOf((*iface)(nil)).Elem(), "keyed-only": reflect.TypeOf((*kit.P0)(nil)), "group-only": reflect.TypeOf((*kit.P1)(nil))}
	keys := map[string]any{"nil": nil, "str": "k", "other": "zz", "int": 7, "struct": thing{1}, "ptr": &thing{}}
	groups := []string{"", "g", "nope", "`"}
	for tn, tv := range types {
		tn, tv := tn, tv
		add("Contains("+tn+")", func() { c, _, _ := mk(); c.Contains(tv); c.Remove(tv) })
		for kn, kv := range keys {
			kn, kv := kn, kv
			add("ContainsKeyed/RemoveKeyed("+tn+","+kn+")", func() { c, _, _ := mk(); c.ContainsKeyed(tv, kv); c.RemoveKeyed(tv, kv) })
			add("provider.GetKeyed("+tn+","+kn+")", func() { _, p, _ := mk(); p.GetKeyed(tv, kv) })
			add("scope.GetKeyed("+tn+","+kn+")", func() { _, _, s := mk(); s.GetKeyed(tv, kv) })
			add("closed scope.GetKeyed("+tn+","+kn+")", func() { _, _, s := mk(); s.Close(); s.GetKeyed(tv, kv) })
		}
		add("provider.Get("+tn+")", func() { _, p, _ := mk(); p.Get(tv) })
		add("scope.Get("+tn+")", func() { _, _, s := mk(); s.Get(tv) })
		add("closed provider.Get("+tn+")", func() {
			_, p, s := mk()
			p.Close()
			p.Get(tv)
			s.Get(tv)
			p.GetKeyed(tv, "k")
			p.GetGroup(tv, "g")
			p.CreateScope(nil)
			s.CreateScope(nil)
		})
		for _, g := range groups {
			g := g
			add("GetGroup("+tn+","+g+")", func() { _, p, s := mk(); p.GetGroup(tv, g); s.GetGroup(tv, g) })
		}
	}
	add("CreateScope(nil)", func() { _, p, s := mk(); p.CreateScope(nilCtx); s.CreateScope(nilCtx); p.CreateScope(nil) })
	add("cancelled ctx", func() {
		_, p, s := mk()
		ctx, cancel := context.WithCancel(context.Background())
		cancel()
		p.CreateScope(ctx)
		s.CreateScope(ctx)
		vsched.Settle()
	})
	add("BuildWithContext(nil)", func() { godi.NewCollection().BuildWithContext(nilCtx) })
	add("BuildWithContext(cancelled)", func() {
		ctx, cancel := context.WithCancel(context.Background())
		cancel()
		c, _, _ := mk()
		c.BuildWithContext(ctx)
	})
	add("BuildWithOptions(nil)", func() {
		godi.NewCollection().BuildWithOptions(nil)
		godi.NewCollection().BuildWithOptions(&godi.ProviderOptions{})
	})
	add("AddModules(nil...)", func() {
		c := godi.NewCollection()
		c.AddModules()
		c.AddModules(nil, nil)
		c.AddModules(godi.NewModule(""))
		c.AddModules(godi.NewModule("x", nil, godi.NewModule("y", nil)))
	})
	add("FromContext", func() {
		godi.FromContext(nilCtx)
		godi.FromContext(context.Background())
		godi.FromContext(context.WithValue(context.Background(), "k", 1))
	})
	add("Resolve helpers nil provider", func() {
		godi.Resolve[*thing](nil)
		godi.ResolveKeyed[*thing](nil, "k")
		godi.ResolveGroup[*thing](nil, "g")
		_, p, _ := mk()
		godi.ResolveKeyed[*thing](p, nil)
		godi.ResolveGroup[*thing](p, "")
		godi.Resolve[iface](p)
		godi.Resolve[int](p)
		godi.ResolveGroup[iface](p, "g")
	})
	add("double close / use after close", func() {
		_, p, s := mk()
		s.Close()
		s.Close()
		p.Close()
		p.Close()
		s.Close()
		p.ID()
		s.Provider()
		s.Context()
	})
	add("empty collection", func() { p, err := godi.NewCollection().Build(); _ = err; p.Get(tThing); p.Close() })
	add("instance values of odd kinds", func() {
		c := godi.NewCollection()
		c.AddSingleton(42)
		c.AddSingleton("s", godi.Name("n"))
		c.AddSingleton([]int{1}, godi.Group("g"))
		c.AddSingleton(map[string]int{})
		c.AddSingleton(thing{})
		p, err := c.Build()
		if err == nil {
			p.Get(reflect.TypeOf(42))
			p.GetKeyed(reflect.TypeOf(""), "n")
			p.GetGroup(reflect.TypeOf([]int{}), "g")
			p.Get(reflect.TypeOf(map[string]int{}))
			p.Close()
		}
	})
	add("descriptor helpers", func() {
		c := godi.NewCollection()
		c.AddSingleton(ctor)
		for _, d := range c.ToSlice() {
			d.GetType()
			d.GetKey()
			d.GetGroup()
			d.GetDependencies()
			d.Validate()
		}
		(&godi.Descriptor{}).Validate()
		var l godi.Lifetime = 99
		_ = l.String()
		l.IsValid()
		l.MarshalText()
		l.UnmarshalText([]byte("bogus"))
		l.UnmarshalJSON([]byte("12"))
		l.UnmarshalJSON([]byte(`"scoped"`))
	})
	for _, p := range probes {
		var pv any
		var did bool
		s := seqOnce(func() { pv, did = kit.Try(p.f) })
		r.Executions++
		r.Validated++
		r.States++
		r.Transitions++
		if did {
			route := p.name
			if i := strings.IndexByte(route, '('); i > 0 {
				route = route[:i]
			}
			r.Violate(feat("clause", "api-panic", "entry", route, "msg", panicMsg(fmt.Sprint(pv))), fmt.Sprintf("%s panicked: %v", p.name, pv), map[string]string{"probe": p.name})
		}
		for _, f := range genericFindings(nil, s) {
			r.Violate(f.F, f.Detail+" in "+p.name, map[string]string{"probe": p.name})
		}
	}
	r.Outcome(fmt.Sprintf("api inputs: %d probes", len(probes)))
	r.Sample(map[string]any{"probes": len(probes), "example": probes[len(probes)/2].name})
	// Must* helpers panic iff the plain call errs
	_, p, _ := func() (godi.Collection, godi.Provider, godi.Scope) {
		c := godi.NewCollection()
		c.AddSingleton(ctor)
		c.AddSingleton(func() *kit.P0 { return &kit.P0{} }, godi.Name("k"))
		c.AddSingleton(func() *kit.P1 { return &kit.P1{} }, godi.Group("g"))
		p, _ := c.Build()
		return c, p, nil
	}()
	type mustCase struct {
		name  string
		plain func() error
		must  func()
	}
	mcs := []mustCase{
		{"MustResolve ok", func() error { _, e := godi.Resolve[*thing](p); return e }, func() { godi.MustResolve[*thing](p) }},
		{"MustResolve missing", func() error { _, e := godi.Resolve[*kit.P5](p); return e }, func() { godi.MustResolve[*kit.P5](p) }},
		{"MustResolve nil provider", func() error { _, e := godi.Resolve[*thing](nil); return e }, func() { godi.MustResolve[*thing](nil) }},
		{"MustResolveKeyed ok", func() error { _, e := godi.ResolveKeyed[*kit.P0](p, "k"); return e }, func() { godi.MustResolveKeyed[*kit.P0](p, "k") }},
		{"MustResolveKeyed missing", func() error { _, e := godi.ResolveKeyed[*kit.P0](p, "zz"); return e }, func() { godi.MustResolveKeyed[*kit.P0](p, "zz") }},
		{"MustResolveKeyed nil key", func() error { _, e := godi.ResolveKeyed[*kit.P0](p, nil); return e }, func() { godi.MustResolveKeyed[*kit.P0](p, nil) }},
		{"MustResolveGroup ok", func() error { _, e := godi.ResolveGroup[*kit.P1](p, "g"); return e }, func() { godi.MustResolveGroup[*kit.P1](p, "g") }},
		{"MustResolveGroup empty name", func() error { _, e := godi.ResolveGroup[*kit.P1](p, ""); return e }, func() { godi.MustResolveGroup[*kit.P1](p, "") }},
		{"MustResolveGroup none", func() error { _, e := godi.ResolveGroup[*kit.P2](p, "g"); return e }, func() { godi.MustResolveGroup[*kit.P2](p, "g") }},
	}
	for _, m := range mcs {
		var perr error
		var did, pdid bool
		seqOnce(func() {
			_, pdid = kit.Try(func() { perr = m.plain() })
			_, did = kit.Try(m.must)
		})
		r.Executions++
		r.Validated++
		if pdid {
			r.Violate(feat("clause", "api-panic", "entry", "Resolve*"), m.name+": the plain call panicked", map[string]string{"probe": m.name})
		} else if did != (perr != nil) {
			r.Violate(feat("clause", "must-contract", "helper", strings.Fields(m.name)[0]), fmt.Sprintf("%s: plain call error=%v, Must* panicked=%v", m.name, perr, did), map[string]string{"probe": m.name})
		}
	}
}

// ---- error classes are distinguishable through every wrapper

func c15Classes(r *mc.Report) {
	if r.Only != nil {
		return
	}
	check := func(name string, err error, want string) {
		r.Executions++
		r.Validated++
		r.States++
		r.Transitions++
		got := kit.ClassOf(err)
		r.Outcome(name + " => " + got)
		if !strings.Contains(got, want) {
			r.Violate(feat("clause", "class-not-distinguishable", "class", want, "route", name), fmt.Sprintf("%s: error %v is not recognisable as %q with errors.Is/As (got %q)", name, firstLineErr(err), want, got), map[string]string{"route": name})
		}
	}
	seqOnce(func() {
		dup := func() *kit.P0 { return &kit.P0{} }
		{
			c := godi.NewCollection()
			c.AddSingleton(dup)
			check("already: direct", c.AddSingleton(dup), "already")
			check("already: keyed", func() error { c.AddScoped(dup, godi.Name("k")); return c.AddScoped(dup, godi.Name("k")) }(), "already")
			check("already: module", c.AddModules(godi.NewModule("m", godi.AddSingleton(dup))), "already")
			check("already: nested modules", c.AddModules(godi.NewModule("a", godi.NewModule("b", godi.NewModule("c", godi.AddTransient(dup))))), "already")
			check("already: multi-return", c.AddSingleton(func() (*kit.P1, *kit.P0) { return nil, nil }), "already")
			check("already: alias", func() error {
				c.AddSingleton(func() *kit.D0 { return &kit.D0{} }, godi.As[kit.IA]())
				return c.AddSingleton(func() *kit.D1 { return &kit.D1{} }, godi.As[kit.IA]())
			}(), "already")
		}
		{
			c := godi.NewCollection()
			c.AddScoped(func(*kit.P1) *kit.P0 { return &kit.P0{} })
			c.AddScoped(func(*kit.P0) *kit.P1 { return &kit.P1{} })
			_, err := c.Build()
			check("circular: Build", err, "circular")
			_, err = c.BuildWithContext(context.Background())
			check("circular: BuildWithContext", err, "circular")
			_, err = c.BuildWithOptions(nil)
			check("circular: BuildWithOptions", err, "circular")
		}
		{
			c := godi.NewCollection()
			c.AddScoped(func() *kit.P1 { return &kit.P1{} })
			c.AddSingleton(func(*kit.P1) *kit.P0 { return &kit.P0{} })
			_, err := c.Build()
			check("lifetime: Build", err, "lifetime")
		}
		{
			c := godi.NewCollection()
			c.AddScoped(func() *kit.P1 { return &kit.P1{} })
			c.AddScoped(func() *kit.P2 { return &kit.P2{} }, godi.Name("k"))
			p, _ := c.Build()
			s, _ := p.CreateScope(nil)
			_, err := p.Get(reflect.TypeOf((*kit.P0)(nil)))
			check("notfound: provider.Get", err, "notfound")
			_, err = s.Get(reflect.TypeOf((*kit.P0)(nil)))
			check("notfound: scope.Get", err, "notfound")
			_, err = s.GetKeyed(reflect.TypeOf((*kit.P1)(nil)), "zz")
			check("notfound: GetKeyed", err, "notfound")
			_, err = godi.Resolve[*kit.P0](s)
			check("notfound: Resolve[T]", err, "notfound")
			_, err = godi.ResolveKeyed[*kit.P2](s, "other")
			check("notfound: ResolveKeyed[T]", err, "notfound")
			child, _ := s.CreateScope(nil)
			s.Close()
			_, err = s.Get(reflect.TypeOf((*kit.P1)(nil)))
			check("disposed: scope.Get", err, "scope-disposed")
			_, err = child.Get(reflect.TypeOf((*kit.P1)(nil)))
			check("disposed: child after parent close", err, "scope-disposed")
			_, err = s.CreateScope(nil)
			check("disposed: CreateScope", err, "scope-disposed")
			_, err = godi.Resolve[*kit.P1](s)
			check("disposed: Resolve[T]", err, "scope-disposed")
			_, err = s.GetGroup(reflect.TypeOf((*kit.P1)(nil)), "g")
			check("disposed: GetGroup", err, "scope-disposed")
			p.Close()
			_, err = p.Get(reflect.TypeOf((*kit.P1)(nil)))
			check("disposed: provider.Get", err, "provider-disposed")
			_, err = p.CreateScope(nil)
			check("disposed: provider.CreateScope", err, "provider-disposed")
			_, err = godi.ResolveGroup[*kit.P1](p, "g")
			check("disposed: ResolveGroup[T]", err, "provider-disposed")
		}
		{
			// missing dependency at Build: not-found class through BuildError
			c := godi.NewCollection()
			c.AddScoped(func(*kit.P1) *kit.P0 { return &kit.P0{} })
			_, err := c.Build()
			check("notfound: Build of a set with a missing dependency", err, "notfound")
		}
	})
}

func pb15(tier string) int {
	if tier == "thorough" {
		return 3
	}
	return 2
}

func firstLineErr(e error) string {
	if e == nil {
		return "<nil>"
	}
	return firstLine(e.Error())
}

func init() {
	mc.Register(&mc.Check{
		Prop:        "C15",
		Rule:        "fault sequences: 9 dependency shapes (chain, diamond, group consumer, In-struct with key/optional, optional-but-registered dependencies, an optional-but-registered dependency whose own group members / keyed dependencies / their dependencies fail, two-output producer, interface-typed producer, result-object producer with an error return) x 5 lifetime patterns x every registration x invocation 1..3 x {returns error, returns nil, panics with string / error / struct / nil} (thorough: additionally every PAIR of fault positions with invocation <=2 x {error, panic}^2); each execution: Build, scope, three attempts at the root service, a second scope, Close; oracle: no panic escapes, an error fault is reachable with errors.As (same pointer), a panic fault is a ConstructorPanicError carrying the value, retries without a pending fault succeed, lifetime / wiring / disposal oracles hold (nothing half-built is cached, nothing successfully built is rebuilt or leaked). API inputs: ~1,000 calls of every exported entry point with nil / typed-nil / zero / unregistered / mismatched / invalid arguments must not panic; Must* helpers panic iff the plain call errs. Schedules: a resolution overlapping Close(scope|provider) whose late instance fails its own Close - the returned error must still satisfy errors.Is(disposed) (bound 2/3). Every cyclic registration set on <=3 services (all digraphs x plain / keyed / group forms) fails Build with an error that errors.As recognises as CircularDependencyError, whichever internal route found the cycle. Error classes: 30 routes through Build / resolution / registration / module wrappers must be recognisable with errors.Is/As. distinct = canonical observation strings.",
		Assume:      []string{"keys are hashable (the property's precondition)", "a constructor returning a typed nil pointer is accepted as an instance: only 'no panic, consistent retry' is demanded there"},
		MinOutcomes: 10,
		Jobs: func(tier string) []mc.Job {
			c15Pairs = tier == "thorough"
			jobs := []mc.Job{{Name: "c15-inputs", Weight: 5, Run: c15Inputs}, {Name: "c15-classes", Run: c15Classes}}
			for _, sh := range []string{"chain", "diamond", "group", "instruct", "optional", "optional-deep", "multi", "iface", "resobj-err"} {
				sh := sh
				jobs = append(jobs, mc.Job{Name: "c15-faults/" + sh, Weight: 3, Run: func(r *mc.Report) { c15Faults(r, sh) }})
			}
			// no operation panics while a provider.Close is parked inside user Close methods (every schedule)
			for _, sc := range c13CascadeScenarios() {
				sc := sc
				if !strings.Contains(sc.Name, "provider") {
					continue
				}
				jobs = append(jobs, mc.Job{Name: strings.Replace(sc.Name, "close-cascades/", "c15-no-panic/", 1), Weight: 20, Run: func(r *mc.Report) {
					exploreScenario(r, sc, mc.Bounds{Preempt: pb15(tier)}, func(e *Env, s *vsched.Sched) []Finding { return nil })
				}})
			}
			// 'circular' is classifiable for EVERY cyclic set, whichever route detected the cycle: all digraphs on
			// <=3 services x dependency forms (re-using C05's container enumeration, cycle-class clause only)
			jobs = append(jobs, mc.Job{Name: "c15-circular-class/n2", Run: func(r *mc.Report) {
				c05OnlyClause = "cycle-wrong-error"
				c05Containers(r, 2, false, []string{"scoped", "singleton", "transient"}, 0, 1)
			}})
			for sh := 0; sh < 4; sh++ {
				sh := sh
				jobs = append(jobs, mc.Job{Name: fmt.Sprintf("c15-circular-class/n3#%d", sh), Weight: 4, Run: func(r *mc.Report) {
					c05OnlyClause = "cycle-wrong-error"
					c05Containers(r, 3, false, []string{"scoped", "singleton"}, sh, 4)
				}})
			}
			// 'disposed' stays classifiable when the failure has two causes: a resolution overlapping Close
			// whose late instance also fails its own Close (every schedule within the bound)
			pb := 2
			if tier == "thorough" {
				pb = 3
			}
			for _, closer := range []string{"close-scope", "close-provider"} {
				for _, op := range []string{"get-scoped", "get-transient", "get-group"} {
					sc := c13Scenario(closer, op, false)
					sc.Name = strings.Replace(sc.Name, "close-vs-op/", "c15-disposed-class/", 1)
					sc.CloseFail = []string{"r1#1.0", "r1#2.0", "r2#1.0", "r2#2.0", "r3#1.0", "r4#1.0"}
					jobs = append(jobs, mc.Job{Name: sc.Name, Weight: 20, Run: func(r *mc.Report) {
						exploreScenario(r, sc, mc.Bounds{Preempt: pb}, func(e *Env, s *vsched.Sched) []Finding {
							var keep []Finding
							for _, f := range c13OverlapOracle(e, s) {
								if f.F["clause"] == "overlap-wrong-error-class" {
									f.F["clause"] = "disposed-not-classifiable"
									keep = append(keep, f)
								}
							}
							return keep
						})
					}})
				}
			}
			return jobs
		},
	})
}
