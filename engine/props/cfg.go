package props

import (
	"fmt"
	"sort"
	"strings"

	"github.com/junioryono/godi/v4/verifmc/kit"
)

// cfgCase is one point of the registration-set space shared by C06/C07/C08:
// a digraph on N services (bit i*N+j = service i depends on service j), a
// lifetime and a registration form per service, optionally some services left
// unregistered, some edges optional, and a registration order.
type cfgCase struct {
	N       int      `json:"n"`
	Mask    uint32   `json:"mask"`
	Life    []string `json:"life"`
	Target  []string `json:"target"`             // plain | keyed | group | alias
	Shape   string   `json:"shape"`              // in | positional
	Missing uint32   `json:"missing,omitempty"`  // bit j: service j is NOT registered
	OptMask uint32   `json:"optional,omitempty"` // bit i*N+j: the edge is optional
	Kind    []string `json:"kind,omitempty"`     // per service: "" | void | voiderr
	Perm    []int    `json:"perm,omitempty"`     // registration order (indices)
	Extra   string   `json:"extra,omitempty"`    // named special configurations
	DupMask uint32   `json:"dup,omitempty"`      // bit i*N+j: the dependency is declared twice (two parameters / fields of the same identity)
	DupOpt  uint32   `json:"dup_optional_first,omitempty"` // bit i*N+j: declared twice, the FIRST occurrence optional, the second required
}

func (c cfgCase) String() string {
	return fmt.Sprintf("n=%d edges=%v life=%v forms=%v shape=%s missing=%b opt=%b dup=%b dup-optional-first=%b kind=%v perm=%v %s", c.N, adjOf(c.N, c.Mask, false), c.Life, c.Target, c.Shape, c.Missing, c.OptMask, c.DupMask, c.DupOpt, c.Kind, c.Perm, c.Extra)
}

var aliasNames = []string{"IA", "IB"}

func (c cfgCase) typeOf(j int) (t string, key string, group string) {
	switch c.Target[j] {
	case "keyed":
		return fmt.Sprintf("P%d", j), "k", ""
	case "group":
		if c.Extra == "merge12" && j == 2 {
			return "P1", "", "g" // services 1 and 2 are two members of one group
		}
		return fmt.Sprintf("P%d", j), "", "g"
	case "alias":
		// at most two alias targets
		n := 0
		for i := 0; i < j; i++ {
			if c.Target[i] == "alias" {
				n++
			}
		}
		return aliasNames[n%2], "", ""
	}
	return fmt.Sprintf("P%d", j), "", ""
}

func (c cfgCase) spec() kit.Spec {
	var regs []kit.Reg
	adj := adjOf(c.N, c.Mask, false)
	for i := 0; i < c.N; i++ {
		if c.Missing&(1<<i) != 0 {
			continue
		}
		r := kit.Reg{ID: i, Life: c.Life[i], Outs: []kit.Out{{T: fmt.Sprintf("P%d", i)}}}
		if c.Extra == "merge12" && i == 2 && c.Target[2] == "group" {
			r.Outs = []kit.Out{{T: "P1"}}
		}
		if len(c.Kind) > i && c.Kind[i] != "" {
			r.Kind = c.Kind[i]
			r.Outs = nil
		} else {
			switch c.Target[i] {
			case "keyed":
				r.Name = "k"
			case "group":
				r.Group = "g"
			case "alias":
				t, _, _ := c.typeOf(i)
				r.As = []string{t}
			}
		}
		allPlain := true
		for _, j := range adj[i] {
			t, key, group := c.typeOf(j)
			d := kit.Dep{T: t, Key: key, Group: group}
			if c.OptMask&(1<<(i*c.N+j)) != 0 {
				d.Opt = true
			}
			if key != "" || group != "" || d.Opt {
				allPlain = false
			}
			r.Deps = append(r.Deps, d)
			if c.DupMask&(1<<(i*c.N+j)) != 0 {
				r.Deps = append(r.Deps, d)
			}
			if c.DupOpt&(1<<(i*c.N+j)) != 0 && group == "" {
				// the same identity once as an optional field and once more as a required one
				r.Deps[len(r.Deps)-1].Opt = true
				d.Opt = false
				r.Deps = append(r.Deps, d)
				allPlain = false
			}
		}
		r.In = c.Shape == "in" || !allPlain
		regs = append(regs, r)
	}
	if len(c.Perm) == len(regs) {
		p := make([]kit.Reg, len(regs))
		for k, idx := range c.Perm {
			p[k] = regs[idx]
		}
		regs = p
	}
	return kit.Spec{Regs: regs}
}

// probeAll resolves every registered identity of the case in the given scope.
func (c cfgCase) probeAll(e *Env, scope string) {
	for i := 0; i < c.N; i++ {
		if c.Missing&(1<<i) != 0 || (len(c.Kind) > i && c.Kind[i] != "") {
			continue
		}
		t, key, group := c.typeOf(i)
		if group != "" {
			e.Do(Op{Kind: "group", Scope: scope, T: t, Group: group})
		} else {
			e.Do(Op{Kind: "get", Scope: scope, T: t, Key: key})
		}
	}
}

// upper-triangular masks: all DAGs whose edges respect the order 0<1<..<n-1
// (i may depend on j only if i<j).
func dagMasks(n int) []uint32 {
	var pairs [][2]int
	for i := 0; i < n; i++ {
		for j := i + 1; j < n; j++ {
			pairs = append(pairs, [2]int{i, j})
		}
	}
	var out []uint32
	for m := 0; m < 1<<len(pairs); m++ {
		var mask uint32
		for b, p := range pairs {
			if m&(1<<b) != 0 {
				mask |= 1 << (p[0]*n + p[1])
			}
		}
		out = append(out, mask)
	}
	return out
}

func lifeAssignments(n int) [][]string {
	ls := []string{"singleton", "scoped", "transient"}
	var out [][]string
	var rec func(cur []string)
	rec = func(cur []string) {
		if len(cur) == n {
			out = append(out, append([]string{}, cur...))
			return
		}
		for _, l := range ls {
			rec(append(cur, l))
		}
	}
	rec(nil)
	return out
}

func uniformTargets(n int, f string) []string {
	t := make([]string, n)
	for i := range t {
		t[i] = f
	}
	return t
}

func allTargets(n int, forms []string) [][]string {
	var out [][]string
	var rec func(cur []string)
	rec = func(cur []string) {
		if len(cur) == n {
			out = append(out, append([]string{}, cur...))
			return
		}
		for _, f := range forms {
			rec(append(cur, f))
		}
	}
	rec(nil)
	return out
}

func permutations(n int) [][]int {
	var out [][]int
	var rec func(cur []int, used []bool)
	rec = func(cur []int, used []bool) {
		if len(cur) == n {
			out = append(out, append([]int{}, cur...))
			return
		}
		for i := 0; i < n; i++ {
			if !used[i] {
				used[i] = true
				rec(append(cur, i), used)
				used[i] = false
			}
		}
	}
	rec(nil, make([]bool, n))
	return out
}

// objectGraph encodes what a set of probe results looks like up to renaming of
// instances: registration / output of every instance, its constructor
// arguments recursively, and sharing (first-visit ordinals).
func objectGraph(e *Env, from int) string {
	ord := map[*kit.Inst]int{}
	var term func(in *kit.Inst) string
	var argTerm func(a kit.Arg) string
	argTerm = func(a kit.Arg) string {
		switch a.Kind {
		case "inst":
			return term(a.Inst)
		case "list":
			l := make([]string, len(a.List))
			for i, x := range a.List {
				l[i] = argTerm(x)
			}
			return "[" + strings.Join(l, ",") + "]"
		}
		return a.Kind
	}
	term = func(in *kit.Inst) string {
		if in == nil {
			return "nil"
		}
		if o, ok := ord[in]; ok {
			return fmt.Sprintf("^%d", o)
		}
		ord[in] = len(ord)
		s := fmt.Sprintf("r%d.%d#%d", in.Reg, in.Out, ord[in])
		if in.Call != nil {
			l := make([]string, len(in.Call.Args))
			for i, a := range in.Call.Args {
				l[i] = argTerm(a)
			}
			s += "(" + strings.Join(l, ",") + ")"
		}
		return s
	}
	var parts []string
	for _, r := range e.Results[from:] {
		if r.Skipped {
			continue
		}
		switch r.Op.Kind {
		case "get":
			if r.Err != nil {
				parts = append(parts, r.Op.String()+"=err:"+r.Class)
			} else {
				parts = append(parts, r.Op.String()+"="+term(kit.InstOf(r.Val)))
			}
		case "group":
			if r.Err != nil {
				parts = append(parts, r.Op.String()+"=err:"+r.Class)
			} else {
				l := make([]string, len(r.Vals))
				for i, v := range r.Vals {
					l[i] = term(kit.InstOf(v))
				}
				parts = append(parts, r.Op.String()+"=["+strings.Join(l, ",")+"]")
			}
		}
	}
	return strings.Join(parts, "; ")
}

func sortedKeys(m map[string]int) []string {
	var l []string
	for k := range m {
		l = append(l, k)
	}
	sort.Strings(l)
	return l
}
