package props

import (
	"encoding/json"
	"errors"
	"fmt"
	"strings"

	"github.com/junioryono/godi/v4"
	"github.com/junioryono/godi/v4/internal/graph"
	"github.com/junioryono/godi/v4/internal/vsched"
	"github.com/junioryono/godi/v4/verifmc/kit"
	"github.com/junioryono/godi/v4/verifmc/mc"
)

// C05 — cycle detection is exact; resolution always terminates.

// adjacency of an n-node digraph from a bit mask: bit (i*n+j) = edge i -> j.
func adjOf(n int, mask uint32, descending bool) map[int][]int {
	out := map[int][]int{}
	for i := 0; i < n; i++ {
		for j := 0; j < n; j++ {
			if mask&(1<<(i*n+j)) != 0 {
				out[i] = append(out[i], j)
			}
		}
		if descending {
			l := out[i]
			for a, b := 0, len(l)-1; a < b; a, b = a+1, b-1 {
				l[a], l[b] = l[b], l[a]
			}
		}
	}
	return out
}

type c05GraphCase struct {
	N       int    `json:"n"`
	Mask    uint32 `json:"mask"`
	Desc    bool   `json:"descending"`
	Mode    string `json:"mode"` // deferred | immediate
	Reverse bool   `json:"base_reverse"`
	Choices []int  `json:"choices,omitempty"`
	Perm    []int  `json:"relabel,omitempty"` // node i is played by pool identity Perm[i] (default: identity)
}

// runGraphCase builds the graph the given way and returns findings.
func runGraphCase(c c05GraphCase) []Finding {
	pool := gPool4[:min(c.N, 4)]
	if c.N == 5 {
		pool = gPool5
	}
	if len(c.Perm) == c.N {
		p2 := make([]gnode, c.N)
		for i, pi := range c.Perm {
			p2[i] = pool[pi]
		}
		pool = p2
	}
	adj := adjOf(c.N, c.Mask, c.Desc)
	st := newGState(pool)
	st.checkPaths = true
	var out []Finding
	switch c.Mode {
	case "deferred":
		for i := 0; i < c.N; i++ {
			out = append(out, st.apply(gop{Kind: "defer", N: i, Deps: adj[i]})...)
		}
		out = append(out, st.apply(gop{Kind: "detect"})...)
		// asking again must give the same answer (cached verdict)
		out = append(out, st.apply(gop{Kind: "detect"})...)
		if !st.m.cyclic() {
			out = append(out, st.queries(0)...)
		}
	case "immediate", "immediate+detect":
		for i := 0; i < c.N; i++ {
			if c.Mode == "immediate+detect" {
				// the whole-graph question asked between the adds: an add that is refused (it would close a
				// cycle) leaves an acyclic graph, and the answer must say so - also from a warm cache
				out = append(out, st.apply(gop{Kind: "detect"})...)
			}
			out = append(out, st.apply(gop{Kind: "add", N: i, Deps: adj[i]})...)
			if st.diverged {
				break
			}
			if c.Mode == "immediate+detect" {
				out = append(out, st.apply(gop{Kind: "detect"})...)
			}
		}
		if !st.diverged {
			out = append(out, st.queries(1)...)
		}
	}
	for i := range out {
		out[i].F["component"] = "graph"
		out[i].F["mode"] = c.Mode
	}
	return out
}

func c05Graphs(r *mc.Report, n int, orderDev int, shard, nshards int, lite ...bool) {
	run := func(c c05GraphCase) {
		vsched.BaseReverse = c.Reverse
		defer func() { vsched.BaseReverse = false }()
		if orderDev == 0 || c.Choices != nil {
			var fs []Finding
			vsched.Run(c.Choices, func(s *vsched.Sched) { s.NoRace = true }, func() { fs = runGraphCase(c) })
			r.Executions++
			r.Validated++
			r.States++
			r.Transitions += int64(c.N + 2)
			for _, f := range fs {
				r.Violate(f.F, f.Detail+fmt.Sprintf("\n  digraph n=%d mask=%#x adjacency=%v mode=%s", c.N, c.Mask, adjOf(c.N, c.Mask, c.Desc), c.Mode), c)
			}
			return
		}
		var fs []Finding
		st := mc.Explore(mc.Bounds{OrderDev: orderDev, NoRace: true, Deadline: r.Deadline}, func() { fs = runGraphCase(c) }, func(s *vsched.Sched, cost [2]int) bool {
			for _, f := range fs {
				cc := c
				cc.Choices = s.Choices()
				if cost[1] > 0 {
					f.F["map-order"] = "deviated"
				}
				r.Violate(f.F, f.Detail+fmt.Sprintf("\n  digraph n=%d mask=%#x adjacency=%v mode=%s choices=%v", c.N, c.Mask, adjOf(c.N, c.Mask, c.Desc), c.Mode, cc.Choices), cc)
			}
			return true
		})
		r.AddStats(st)
	}
	if r.Only != nil {
		var c c05GraphCase
		if json.Unmarshal(r.Only, &c) == nil && c.N == n && c.Mode != "" {
			if c.Choices == nil {
				c.Choices = []int{}
			}
			run(c)
		}
		return
	}
	total := uint32(1) << (n * n)
	cyc, acyc := 0, 0
	for mask := uint32(0); mask < total; mask++ {
		if nshards > 1 && int(mask)%nshards != shard {
			continue
		}
		for _, desc := range []bool{false, true} {
			for _, mode := range []string{"deferred", "immediate", "immediate+detect"} {
				for _, rev := range []bool{false, true} {
					if mode == "immediate+detect" && (desc || rev) && n > 3 {
						continue
					}
					if len(lite) > 0 && lite[0] && (desc || mode != "deferred") {
						continue // order deviations on 4 nodes: deferred adds, ascending lists, both base orders
					}
					run(c05GraphCase{N: n, Mask: mask, Desc: desc, Mode: mode, Reverse: rev})
				}
			}
		}
		m := newDigraph()
		for i, l := range adjOf(n, mask, false) {
			m.add(i, l)
		}
		if m.cyclic() {
			cyc++
		} else {
			acyc++
		}
	}
	r.Outcome(fmt.Sprintf("graphs n=%d shard %d/%d: %d cyclic, %d acyclic", n, shard, nshards, cyc, acyc))
	r.Sample(map[string]any{"n": n, "example_mask": 0x1234 % int(total), "adjacency": adjOf(n, uint32(0x1234)%total, false)})
}

// ---------------------------------------------------------------- container level

type c05ContCase struct {
	Dup    bool     `json:"dup,omitempty"` // every dependency declared twice
	Opt    bool     `json:"opt,omitempty"` // every (non-group) dependency declared as an optional In field
	Rev    bool     `json:"rev,omitempty"` // registrations made in descending id order (consumers of higher ids first)
	GName  bool     `json:"group_field_named,omitempty"` // group fields additionally carry a name tag (the field is still a group dependency)
	N      int      `json:"n"`
	Mask   uint32   `json:"mask"`
	Target []string `json:"target_forms"` // per node: plain | keyed | group
	Shape  string   `json:"shape"`        // in | positional
	Life   string   `json:"life"`
}

func (c c05ContCase) spec() kit.Spec {
	var spec kit.Spec
	adj := adjOf(c.N, c.Mask, false)
	for i := 0; i < c.N; i++ {
		r := kit.Reg{ID: i, Life: c.Life, Outs: []kit.Out{{T: fmt.Sprintf("P%d", i)}}}
		switch c.Target[i] {
		case "keyed":
			r.Name = "k"
		case "group":
			r.Group = "g"
		}
		allPlain := true
		for _, j := range adj[i] {
			d := kit.Dep{T: fmt.Sprintf("P%d", j)}
			switch c.Target[j] {
			case "keyed":
				d.Key = "k"
				allPlain = false
			case "group":
				d.Group = "g"
				if c.GName {
					d.Key = "x"
				}
				allPlain = false
			}
			if c.Opt && d.Group == "" {
				d.Opt = true
			}
			r.Deps = append(r.Deps, d)
			if c.Dup {
				r.Deps = append(r.Deps, d)
			}
		}
		r.In = c.Shape == "in" || !allPlain || c.Opt
		spec.Regs = append(spec.Regs, r)
	}
	if c.Rev {
		for i, j := 0, len(spec.Regs)-1; i < j; i, j = i+1, j-1 {
			spec.Regs[i], spec.Regs[j] = spec.Regs[j], spec.Regs[i]
		}
	}
	return spec
}

func runContCase(c c05ContCase) (*Env, *Model, []Finding) {
	spec := c.spec()
	m := NewModel(&spec)
	e := NewEnv(&spec)
	e.Build()
	var out []Finding
	forms := map[string]bool{}
	adj := adjOf(c.N, c.Mask, false)
	for i, l := range adj {
		_ = i
		for _, j := range l {
			forms[c.Target[j]] = true
		}
	}
	var fl []string
	for _, f := range []string{"plain", "keyed", "group"} {
		if forms[f] {
			fl = append(fl, f)
		}
	}
	edgeForms := strings.Join(fl, "+")
	cyc := m.HasCycle()
	var ce *godi.CircularDependencyError
	isCirc := e.BuildErr != nil && errors.As(e.BuildErr, &ce)
	switch {
	case e.BuildPanic != nil:
		out = append(out, Finding{feat("clause", "build-panic"), fmt.Sprint(e.BuildPanic)})
	case cyc && e.BuildErr == nil:
		out = append(out, Finding{feat("clause", "cycle-accepted", "edge-forms", edgeForms, "component", "container"),
			fmt.Sprintf("Build accepted a registration set whose dependency relation has a cycle (edges %v, target forms %v); resolution would not terminate", adj, c.Target)})
	case cyc && !isCirc:
		out = append(out, Finding{feat("clause", "cycle-wrong-error", "edge-forms", edgeForms, "class", kit.ClassOf(e.BuildErr)),
			fmt.Sprintf("cyclic set rejected, but not with a circular-dependency error: %v", firstLine(e.BuildErr.Error()))})
	case !cyc && isCirc:
		out = append(out, Finding{feat("clause", "acyclic-rejected", "edge-forms", edgeForms),
			fmt.Sprintf("acyclic set (edges %v) rejected as circular: %v", adj, firstLine(e.BuildErr.Error()))})
	case !cyc && e.BuildErr != nil:
		out = append(out, Finding{feat("clause", "acyclic-not-buildable", "edge-forms", edgeForms, "class", kit.ClassOf(e.BuildErr)),
			fmt.Sprintf("acyclic set (edges %v, forms %v) not buildable: %v", adj, c.Target, firstLine(e.BuildErr.Error()))})
	}
	if cyc && isCirc {
		// the reported path must be a real cycle of the dependency relation
		out = append(out, checkContainerPath(&spec, m, ce)...)
	}
	if !cyc && e.Prov != nil {
		// every identity resolves (terminates) in a fresh scope
		e.Do(Op{Kind: "scope", Bind: "s1"})
		for i := 0; i < c.N; i++ {
			t := fmt.Sprintf("P%d", i)
			switch c.Target[i] {
			case "keyed":
				e.Do(Op{Kind: "get", Scope: "s1", T: t, Key: "k"})
			case "group":
				e.Do(Op{Kind: "group", Scope: "s1", T: t, Group: "g"})
			default:
				e.Do(Op{Kind: "get", Scope: "s1", T: t})
			}
		}
		if len(e.W.Calls) > 200 {
			out = append(out, Finding{feat("clause", "nontermination"), fmt.Sprintf("%d constructor calls for %d services", len(e.W.Calls), c.N)})
		}
		for _, r := range e.Results {
			if r.Panic != nil || (r.Err != nil && r.Op.Kind != "scope") {
				out = append(out, Finding{feat("clause", "acyclic-unresolvable", "edge-forms", edgeForms, "class", r.Class),
					fmt.Sprintf("%s failed on an acyclic, built set: %v %v", r.Op, r.Err, r.Panic)})
			}
		}
		e.Do(Op{Kind: "close", Scope: ""})
	}
	return e, m, out
}

// checkContainerPath maps the reported NodeKeys back to registrations; group
// placeholder nodes (type, no key, group) are accepted as standing for any
// member of that group.
func checkContainerPath(spec *kit.Spec, m *Model, ce *godi.CircularDependencyError) []Finding {
	edges := m.Edges()
	has := func(a, b int) bool {
		for _, t := range edges[a] {
			if t == b {
				return true
			}
		}
		return false
	}
	// candidates per path element
	var cands [][]int
	for _, nk := range ce.Path {
		var c []int
		for i := range spec.Regs {
			r := &spec.Regs[i]
			if kit.TypeOf(r.Outs[0].T) != nk.Type {
				continue
			}
			switch {
			case nk.Group != "":
				if r.Group == nk.Group {
					c = append(c, r.ID)
				}
			case nk.Key != nil:
				if r.Name != "" && nk.Key == any(r.Name) {
					c = append(c, r.ID)
				}
			default:
				if r.Name == "" && r.Group == "" {
					c = append(c, r.ID)
				}
			}
		}
		cands = append(cands, c)
	}
	bad := func(why string) []Finding {
		var p []string
		for _, nk := range ce.Path {
			p = append(p, nk.String())
		}
		return []Finding{{feat("clause", "path-not-a-cycle", "component", "container"), fmt.Sprintf("reported cycle path [%s]: %s (dependency edges %v)", strings.Join(p, " -> "), why, edges)}}
	}
	if len(cands) == 0 {
		return bad("empty path")
	}
	// contract consecutive duplicates produced by placeholder+member pairs and a trailing repeat of the first node
	var seq [][]int
	for i, c := range cands {
		if len(c) == 0 {
			return bad(fmt.Sprintf("element %d is not a registered service", i))
		}
		if i > 0 && fmt.Sprint(c) == fmt.Sprint(cands[i-1]) {
			continue
		}
		seq = append(seq, c)
	}
	if len(seq) > 1 && fmt.Sprint(seq[0]) == fmt.Sprint(seq[len(seq)-1]) {
		seq = seq[:len(seq)-1]
	}
	for i := range seq {
		a, b := seq[i], seq[(i+1)%len(seq)]
		ok := false
		for _, x := range a {
			for _, y := range b {
				if has(x, y) {
					ok = true
				}
			}
		}
		if !ok {
			return bad(fmt.Sprintf("no dependency edge from %v to %v", a, b))
		}
	}
	return nil
}

// c05OnlyClause: when set (C15 re-uses the enumeration) only this clause is reported.
var c05OnlyClause string

func c05Containers(r *mc.Report, n int, uniform bool, lifes []string, shard, nshards int) {
	run := func(c c05ContCase) {
		var fs []Finding
		var e *Env
		s := seqOnce(func() { e, _, fs = runContCase(c) })
		r.Executions++
		r.Validated++
		r.States++
		r.Transitions += int64(len(e.Results) + 1)
		fs = append(fs, genericFindings(nil, s)...)
		for _, f := range fs {
			if c05OnlyClause != "" {
				if f.F["clause"] != c05OnlyClause {
					continue
				}
				f.F["clause"] = "circular-not-classifiable"
			}
			r.Violate(f.F, f.Detail+fmt.Sprintf("\n  services=%d edges=%v target-forms=%v shape=%s lifetime=%s optional=%v reversed-registration=%v group-fields-named=%v", c.N, adjOf(c.N, c.Mask, false), c.Target, c.Shape, c.Life, c.Opt, c.Rev, c.GName), c)
		}
		v := "ok"
		if e.BuildErr != nil {
			v = kit.ClassOf(e.BuildErr)
		}
		r.Outcome(fmt.Sprintf("n=%d forms=%v verdict=%s", c.N, c.Target, v))
		if len(r.Samples) < 2 && c.Mask%97 == 5 {
			r.Sample(map[string]any{"case": c, "verdict": v})
		}
	}
	if r.Only != nil {
		var c c05ContCase
		if json.Unmarshal(r.Only, &c) == nil && c.N == n && len(c.Target) == n && c.Life != "" {
			run(c)
		}
		return
	}
	forms := []string{"plain", "keyed", "group"}
	var targets [][]string
	if uniform {
		for _, f := range forms {
			t := make([]string, n)
			for i := range t {
				t[i] = f
			}
			targets = append(targets, t)
		}
	} else {
		var rec func(cur []string)
		rec = func(cur []string) {
			if len(cur) == n {
				targets = append(targets, append([]string{}, cur...))
				return
			}
			for _, f := range forms {
				rec(append(cur, f))
			}
		}
		rec(nil)
	}
	total := uint32(1) << (n * n)
	for mask := uint32(0); mask < total; mask++ {
		if nshards > 1 && int(mask)%nshards != shard {
			continue
		}
		for _, t := range targets {
			for _, life := range lifes {
				run(c05ContCase{N: n, Mask: mask, Target: t, Shape: "in", Life: life})
				if mask != 0 && (n <= 3 || life == "scoped") {
					// registration order and optional parameter-object fields must not matter for the verdict
					run(c05ContCase{N: n, Mask: mask, Target: t, Shape: "in", Life: life, Rev: true})
					run(c05ContCase{N: n, Mask: mask, Target: t, Shape: "in", Life: life, Opt: true})
					run(c05ContCase{N: n, Mask: mask, Target: t, Shape: "in", Life: life, Opt: true, Rev: true})
				}
				if mask != 0 && n <= 3 && strings.Contains(strings.Join(t, ","), "group") {
					run(c05ContCase{N: n, Mask: mask, Target: t, Shape: "in", Life: life, GName: true})
				}
				allPlain := true
				for _, f := range t {
					if f != "plain" {
						allPlain = false
					}
				}
				if allPlain {
					run(c05ContCase{N: n, Mask: mask, Target: t, Shape: "positional", Life: life})
					if mask != 0 {
						run(c05ContCase{N: n, Mask: mask, Target: t, Shape: "positional", Life: life, Dup: true})
					}
				}
			}
		}
	}
}

var _ = graph.NewDependencyGraph

func init() {
	mc.Register(&mc.Check{
		Prop:        "C05",
		Rule:        "graph component: ALL 2^16 digraphs on 4 labelled nodes (self-loops included; all 2^9 on 3 nodes too) x {AddProviderDeferred all + DetectCycles (asked twice), AddProvider one by one, AddProvider one by one with DetectCycles asked before and after every add} x dependency-list order {ascending, descending} x canonical / reversed base map order, plus every single non-identity permutation of one map range (order deviation 1) for all 3-node graphs (quick) / additionally all 4-node graphs with deferred adds and ascending lists (thorough); verdicts compared with a colour-DFS on the plain digraph, reported paths checked edge by edge. Container: all digraphs on <=3 services x every per-target dependency form (plain / keyed / group; In-struct and positional consumers; In-struct also with every non-group edge declared optional, and with the registrations made in ascending and descending order, so that consumers are registered before and after what they consume; group fields also carrying an additional name tag) x 3 uniform lifetimes, and all digraphs on 4 services x uniform forms; Build verdict, error class through BuildError, reported path, and termination of resolving every identity; plus cycles running through a two-output registration (multiple returns / result object / two aliases x plain / keyed / group edge x lifetime) one of whose outputs was removed before Build. distinct = distinct (size, forms, verdict) classes.",
		Assume:      []string{"the property's 'randomly beyond 4 nodes' part is not covered: the claim is all graphs with <= 4 nodes"},
		MinOutcomes: 4,
		Jobs: func(tier string) []mc.Job {
			var jobs []mc.Job
			for sh := 0; sh < 16; sh++ {
				sh := sh
				jobs = append(jobs, mc.Job{Name: fmt.Sprintf("c05-graph4#%d", sh), Weight: 10, Run: func(r *mc.Report) { c05Graphs(r, 4, 0, sh, 16) }})
			}
			jobs = append(jobs, mc.Job{Name: "c05-graph3", Run: func(r *mc.Report) { c05Graphs(r, 3, 0, 0, 1) }})
			for sh := 0; sh < 4; sh++ {
				sh := sh
				jobs = append(jobs, mc.Job{Name: fmt.Sprintf("c05-graph3-dev1#%d", sh), Weight: 8, Run: func(r *mc.Report) { c05Graphs(r, 3, 1, sh, 4) }})
			}
			if tier == "thorough" {
				for sh := 0; sh < 64; sh++ {
					sh := sh
					jobs = append(jobs, mc.Job{Name: fmt.Sprintf("c05-graph4-dev1#%d", sh), Weight: 20, Run: func(r *mc.Report) { c05Graphs(r, 4, 1, sh, 64, true) }})
				}
			}
			lifes := []string{"scoped", "singleton", "transient"}
			jobs = append(jobs, mc.Job{Name: "c05-multi-output-remove", Run: c05MultiRemove})
			jobs = append(jobs, mc.Job{Name: "c05-cont2", Run: func(r *mc.Report) { c05Containers(r, 2, false, lifes, 0, 1) }})
			for sh := 0; sh < 8; sh++ {
				sh := sh
				jobs = append(jobs, mc.Job{Name: fmt.Sprintf("c05-cont3#%d", sh), Weight: 6, Run: func(r *mc.Report) { c05Containers(r, 3, false, lifes, sh, 8) }})
			}
			l4 := []string{"scoped"}
			if tier == "thorough" {
				l4 = lifes
			}
			for sh := 0; sh < 16; sh++ {
				sh := sh
				jobs = append(jobs, mc.Job{Name: fmt.Sprintf("c05-cont4#%d", sh), Weight: 12, Run: func(r *mc.Report) { c05Containers(r, 4, true, l4, sh, 16) }})
			}
			return jobs
		},
	})
}

// c19DAGs: every DAG on n nodes (all edge sets respecting the order 0<1<..<n-1) under every
// relabelling of the nodes, built deferred+detect and immediately, from both base map orders;
// every query (depths in particular: nodes reached by paths of different length) against the model.
func c19DAGs(r *mc.Report, n int, shard, nshards int) {
	run := func(c c05GraphCase) {
		vsched.BaseReverse = c.Reverse
		defer func() { vsched.BaseReverse = false }()
		var fs []Finding
		vsched.Run(c.Choices, func(s *vsched.Sched) { s.NoRace = true }, func() { fs = runGraphCase(c) })
		r.Executions++
		r.Validated++
		r.States++
		r.Transitions += int64(c.N + 2)
		for _, f := range fs {
			r.Violate(f.F, f.Detail+fmt.Sprintf("\n  DAG n=%d mask=%#x adjacency=%v relabel=%v mode=%s reversed-base-order=%v", c.N, c.Mask, adjOf(c.N, c.Mask, false), c.Perm, c.Mode, c.Reverse), c)
		}
	}
	if r.Only != nil {
		var c c05GraphCase
		if json.Unmarshal(r.Only, &c) == nil && c.N == n && c.Mode != "" && len(c.Perm) == n {
			if c.Choices == nil {
				c.Choices = []int{}
			}
			run(c)
		}
		return
	}
	k := 0
	masks := dagMasks(n)
	for _, m := range masks {
		for _, perm := range permutations(n) {
			k++
			if nshards > 1 && k%nshards != shard {
				continue
			}
			for _, mode := range []string{"deferred", "immediate"} {
				for _, rev := range []bool{false, true} {
					run(c05GraphCase{N: n, Mask: m, Mode: mode, Reverse: rev, Perm: perm})
				}
			}
		}
	}
	r.Outcome(fmt.Sprintf("DAGs n=%d shard %d/%d: %d edge sets x %d relabellings", n, shard, nshards, len(masks), len(permutations(n))))
}

// c05MultiRemove: cycles that run through a multi-output registration one of whose outputs was
// removed before Build. The registration (two outputs: multiple returns / result object / two
// aliases) consumes service Z through a plain, keyed or group dependency; Z depends on one of the
// two outputs; then none / the first / the second output is removed. As long as the output Z needs
// is still registered the set is cyclic and Build must say so.
type c05MRCase struct {
	Form   string `json:"form"`   // multi | resobj | alias2
	Via    string `json:"via"`    // plain | keyed | group
	ZNeeds int    `json:"z_needs"`
	Remove string `json:"remove"` // none | first | second
	Life   string `json:"life"`
}

func c05MultiRemove(r *mc.Report) {
	run := func(c c05MRCase) {
		r0 := kit.Reg{ID: 0, Life: c.Life, In: true}
		var ids []Ident
		switch c.Form {
		case "multi":
			r0.Outs = []kit.Out{{T: "P0"}, {T: "P1"}}
			ids = []Ident{{T: "P0"}, {T: "P1"}}
		case "resobj":
			r0.ResObj = true
			r0.Outs = []kit.Out{{T: "P0"}, {T: "P1", Key: "k1"}}
			ids = []Ident{{T: "P0"}, {T: "P1", Key: "k1"}}
		case "alias2":
			r0.Outs = []kit.Out{{T: "D2"}}
			r0.As = []string{"IA", "IB"}
			ids = []Ident{{T: "IA"}, {T: "IB"}}
		}
		z := kit.Reg{ID: 1, Life: c.Life, In: true, Outs: []kit.Out{{T: "P2"}}, Deps: []kit.Dep{{T: ids[c.ZNeeds].T, Key: ids[c.ZNeeds].Key}}}
		zd := kit.Dep{T: "P2"}
		switch c.Via {
		case "keyed":
			z.Name = "kz"
			zd.Key = "kz"
		case "group":
			z.Group = "gz"
			zd.Group = "gz"
		}
		r0.Deps = []kit.Dep{zd}
		spec := kit.Spec{Regs: []kit.Reg{r0, z}}
		removed := -1
		switch c.Remove {
		case "first":
			removed = 0
		case "second":
			removed = 1
		}
		if removed == c.ZNeeds {
			return // Z's dependency is gone: a missing dependency, not a cycle (C08's subject)
		}
		var e *Env
		s := seqOnce(func() {
			e = NewEnv(&spec)
			e.Coll = godiNewCollection()
			for i := range spec.Regs {
				e.AddErrs = append(e.AddErrs, e.W.Add(e.Coll, &spec.Regs[i]))
			}
			if removed >= 0 {
				if ids[removed].Key == "" {
					e.Coll.Remove(kit.TypeOf(ids[removed].T))
				} else {
					e.Coll.RemoveKeyed(kit.TypeOf(ids[removed].T), ids[removed].Key)
				}
			}
			p, did := kit.Try(func() { e.Prov, e.BuildErr = e.Coll.Build() })
			if did {
				e.BuildPanic = p
			}
			if e.Prov != nil {
				e.Prov.Close()
			}
		})
		r.Executions++
		r.Validated++
		r.States++
		r.Transitions += 4
		var fs []Finding
		var ce *godi.CircularDependencyError
		switch {
		case e.BuildPanic != nil:
			fs = append(fs, Finding{feat("clause", "build-panic"), fmt.Sprint(e.BuildPanic)})
		case e.BuildErr == nil:
			fs = append(fs, Finding{feat("clause", "cycle-accepted", "edge-forms", c.Via, "component", "container", "multi-output", c.Form, "removed", c.Remove),
				fmt.Sprintf("Build accepted a cyclic set: the %s registration consumes P2 (%s), P2 needs its output %d", c.Form, c.Via, c.ZNeeds)})
		case !errors.As(e.BuildErr, &ce):
			fs = append(fs, Finding{feat("clause", "cycle-wrong-error", "edge-forms", c.Via, "class", kit.ClassOf(e.BuildErr), "multi-output", c.Form),
				fmt.Sprintf("cyclic set rejected, but not with a circular-dependency error: %v", firstLine(e.BuildErr.Error()))})
		}
		fs = append(fs, genericFindings(nil, s)...)
		v := "ok"
		if e.BuildErr != nil {
			v = kit.ClassOf(e.BuildErr)
		}
		r.Outcome(fmt.Sprintf("multi-output cycle %s/%s verdict=%s", c.Form, c.Via, v))
		for _, f := range fs {
			r.Violate(f.F, f.Detail+fmt.Sprintf("\n  form %s, dependency via %s, P2 needs output %d, removed output: %s, lifetime %s", c.Form, c.Via, c.ZNeeds, c.Remove, c.Life), c)
		}
	}
	if r.Only != nil {
		var c c05MRCase
		if json.Unmarshal(r.Only, &c) == nil && c.Form != "" && c.Via != "" {
			run(c)
		}
		return
	}
	for _, form := range []string{"multi", "resobj", "alias2"} {
		for _, via := range []string{"plain", "keyed", "group"} {
			for zn := 0; zn < 2; zn++ {
				for _, rm := range []string{"none", "first", "second"} {
					for _, life := range []string{"scoped", "transient", "singleton"} {
						run(c05MRCase{Form: form, Via: via, ZNeeds: zn, Remove: rm, Life: life})
					}
				}
			}
		}
	}
}
