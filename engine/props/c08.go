package props

import (
	"encoding/json"
	"fmt"
	"strings"

	"github.com/junioryono/godi/v4"
	"github.com/junioryono/godi/v4/verifmc/kit"
	"github.com/junioryono/godi/v4/verifmc/mc"
)

// C08 — Build accepts exactly the registration sets whose services are resolvable.

func c08Oracle(c cfgCase, e *Env, m *Model) []Finding {
	var out []Finding
	verdict := m.Verdict()
	ef := edgeFormsOf(c)
	depKind := "ctor"
	if len(c.Kind) > 0 && c.Kind[0] != "" {
		depKind = "initializer"
	}
	life0 := c.Life[0]
	if e.BuildPanic != nil {
		out = append(out, Finding{feat("clause", "build-panic"), fmt.Sprint(e.BuildPanic)})
		return out
	}
	if verdict == "ok" && e.BuildErr != nil {
		out = append(out, Finding{feat("clause", "valid-set-rejected", "edge-forms", ef, "dependent", depKind, "class", kit.ClassOf(e.BuildErr)),
			"Build failed on a set with no cycle, no lifetime conflict and no missing required dependency: " + firstLine(e.BuildErr.Error())})
	}
	if strings.Contains(verdict, "missing") && e.BuildErr == nil {
		out = append(out, Finding{feat("clause", "missing-dependency-accepted", "edge-forms", ef, "dependent", depKind, "dependent-life", life0),
			"Build succeeded although a registered service has a required dependency that is neither registered nor built-in"})
	}
	if e.Prov != nil {
		for _, r := range e.Results {
			if r.Skipped {
				continue
			}
			if r.Panic != nil {
				out = append(out, Finding{feat("clause", "panic", "op", r.Op.Kind), fmt.Sprintf("%s panicked: %v", r.Op, r.Panic)})
				continue
			}
			if (r.Op.Kind == "get" || r.Op.Kind == "group" || r.Op.Kind == "scope") && r.Err != nil && strings.Contains(r.Class, "notfound") {
				out = append(out, Finding{feat("clause", "notfound-after-build", "op", r.Op.Kind, "edge-forms", ef, "dependent", depKind),
					fmt.Sprintf("Build succeeded, yet %s fails with 'service not found': %v", r.Op, firstLine(r.Err.Error()))})
			}
			if verdict == "ok" && r.Err != nil && (r.Op.Kind == "get" || r.Op.Kind == "group" || r.Op.Kind == "scope") {
				out = append(out, Finding{feat("clause", "valid-set-unresolvable", "op", r.Op.Kind, "class", r.Class, "edge-forms", ef),
					fmt.Sprintf("valid set built, yet %s failed: %v", r.Op, firstLine(r.Err.Error()))})
			}
		}
	}
	return out
}

func c08Enumerate(r *mc.Report, n int, lifes [][]string, shard, nshards int) {
	if r.Only != nil {
		var c cfgCase
		if json.Unmarshal(r.Only, &c) == nil && c.N == n && len(c.Life) == n {
			cfgRun(r, c, c08Oracle)
		}
		return
	}
	k := 0
	for _, mask := range dagMasks(n) {
		// every edge mask restricted to "optional" variants: none, all, only edges into missing services
		for missing := uint32(0); missing < 1<<n; missing += 2 { // service 0 is always registered
			for _, life := range lifes {
				k++
				if nshards > 1 && k%nshards != shard {
					continue
				}
				var targetSets [][]string
				if n <= 3 {
					// every per-service assignment: in particular DEPENDENTS registered as group members /
					// keyed / aliased services whose own dependencies are plain or keyed (and may be missing)
					targetSets = allTargets(n, []string{"plain", "keyed", "group"})
					if n <= 2 {
						targetSets = allTargets(n, []string{"plain", "keyed", "group", "alias"})
					}
				} else {
					for _, f := range []string{"plain", "keyed", "group"} {
						targetSets = append(targetSets, uniformTargets(n, f))
					}
					targetSets = append(targetSets, []string{"group", "plain", "keyed", "plain"}, []string{"keyed", "group", "plain", "alias"}, []string{"alias", "group", "group", "plain"})
				}
				for _, t := range targetSets {
					form := "mixed"
					if fmt.Sprint(t) == fmt.Sprint(uniformTargets(n, t[0])) {
						form = t[0]
					}
					var optIntoMissing uint32
					for i := 0; i < n; i++ {
						for j := 0; j < n; j++ {
							if mask&(1<<(i*n+j)) != 0 && missing&(1<<j) != 0 {
								optIntoMissing |= 1 << (i*n + j)
							}
						}
					}
					opts := []uint32{0, mask}
					if optIntoMissing != 0 && optIntoMissing != mask {
						opts = append(opts, optIntoMissing)
					}
					for _, opt := range opts {
						for _, kind0 := range []string{"", "void", "voiderr"} {
							if kind0 != "" && life[0] == "transient" {
								continue // initializer functions are singleton- or scope-level
							}
							kinds := make([]string, n)
							kinds[0] = kind0
							cfgRun(r, cfgCase{N: n, Mask: mask, Life: life, Target: t, Shape: "in", Missing: missing, OptMask: opt, Kind: kinds}, c08Oracle)
							if opt == 0 && mask != 0 && form != "group" && n <= 3 {
								// every dependency declared twice: first as an optional field, then as a required one
								cfgRun(r, cfgCase{N: n, Mask: mask, Life: life, Target: t, Shape: "in", Missing: missing, Kind: kinds, DupOpt: mask}, c08Oracle)
							}
							if form == "plain" && opt == 0 {
								cfgRun(r, cfgCase{N: n, Mask: mask, Life: life, Target: t, Shape: "positional", Missing: missing, Kind: kinds}, c08Oracle)
								if mask != 0 && kind0 == "" {
									// every dependency declared twice (two parameters of the same identity)
									cfgRun(r, cfgCase{N: n, Mask: mask, Life: life, Target: t, Shape: "positional", Missing: missing, Kind: kinds, DupMask: mask}, c08Oracle)
								}
							}
						}
					}
				}
			}
		}
	}
}

func init() {
	mc.Register(&mc.Check{
		Prop:        "C08",
		Rule:        "all dependency DAGs on <=3 services (4 in thorough; quick covers 4 services with uniform lifetimes) x every subset of the non-root services left unregistered x all lifetime assignments x registration/dependency form per service {plain, keyed, group member, interface alias} (every per-service assignment for <=3 services, so that group members / keyed / aliased dependents with plain or keyed dependencies occur; uniform plus three mixed assignments for 4) x optional-ness {no edge, every edge, exactly the edges into unregistered services} x dependent form {constructor with In struct, positional constructor (also with every dependency declared twice, and declared twice as an optional field followed by a required field), void initializer, error-only initializer}; oracle: Build must succeed iff the model finds no lifetime conflict and no missing required dependency; after a successful Build every registered identity is resolved from a scope, its child and again and no resolution / scope creation may fail with 'service not found' (or fail at all when the model says valid). plus two-output (multiple-return / result-object) dependents x lifetimes x dependency registered or not x Remove of the first / second / both outputs x re-adding the first type. plus dependencies on the built-in injectables (plain, keyed, keyed-optional, optional, group; one or two fields) for constructors and initializers of every lifetime. distinct = (size, edge forms, verdict, model verdict) classes. Rebuild after edit: every history to depth 5 (quick) / 6 (thorough) over {14 Add variants (singleton / transient / scoped consumers with optional, required, keyed, group and keyed-optional dependencies; singleton and scoped providers, keyed providers, group members, unrelated services), Remove x3, RemoveKeyed, Build (<=2)}: the verdict of every Build of the edited collection equals the verdict of a FRESH collection holding the surviving registrations (differential oracle), a successful Build hands no scoped instance to a singleton / transient and leaves no registered identity unresolvable.",
		Assume:      []string{"built-in injectables are context.Context, Scope and Provider without a key"},
		MinOutcomes: 6,
		Jobs: func(tier string) []mc.Job {
			jobs := []mc.Job{
				{Name: "c08-multi-remove", Run: c08Multi},
				{Name: "c08-builtins", Run: c08Builtins},
				{Name: "c08-n1", Run: func(r *mc.Report) { c08Enumerate(r, 1, lifeAssignments(1), 0, 1) }},
				{Name: "c08-n2", Run: func(r *mc.Report) { c08Enumerate(r, 2, lifeAssignments(2), 0, 1) }},
			}
			for sh := 0; sh < 6; sh++ {
				sh := sh
				jobs = append(jobs, mc.Job{Name: fmt.Sprintf("c08-n3#%d", sh), Weight: 5, Run: func(r *mc.Report) { c08Enumerate(r, 3, lifeAssignments(3), sh, 6) }})
			}
			l4 := [][]string{uniformTargets(4, "singleton"), uniformTargets(4, "scoped"), uniformTargets(4, "transient"), {"scoped", "singleton", "transient", "singleton"}, {"singleton", "transient", "singleton", "transient"}}
			ns := 8
			if tier == "thorough" {
				l4 = lifeAssignments(4)
				ns = 32
			}
			for sh := 0; sh < ns; sh++ {
				sh := sh
				jobs = append(jobs, mc.Job{Name: fmt.Sprintf("c08-n4#%d", sh), Weight: 10, Run: func(r *mc.Report) { c08Enumerate(r, 4, l4, sh, ns) }})
			}
			jobs = append(jobs, rbJobs("C08", depth4(tier)+1)...)
			return jobs
		},
	})
}

// ---- multi-output dependents combined with Remove (registration sets reached through removal)

type c08MultiCase struct {
	Life   string `json:"life"`
	Form   string `json:"form"` // multi | resobj
	DepReg bool   `json:"dep_registered"`
	Remove string `json:"remove"` // none | first | second | both
	Readd  bool   `json:"readd_first"`
}

func c08Multi(r *mc.Report) {
	run := func(c c08MultiCase) {
		r0 := kit.Reg{ID: 0, Life: c.Life, Outs: []kit.Out{{T: "P0"}, {T: "P1"}}, Deps: []kit.Dep{{T: "P2"}}}
		secondKey := ""
		if c.Form == "resobj" {
			r0.ResObj, r0.In = true, true
			r0.Outs[1].Key = "k"
			secondKey = "k"
		}
		spec := kit.Spec{Regs: []kit.Reg{r0}}
		if c.DepReg {
			spec.Regs = append(spec.Regs, kit.Reg{ID: 1, Life: "singleton", Outs: []kit.Out{{T: "P2"}}})
		}
		if c.Readd {
			spec.Regs = append(spec.Regs, kit.Reg{ID: 2, Life: c.Life, Outs: []kit.Out{{T: "P0"}}})
		}
		var e *Env
		var m *Model
		s := seqOnce(func() {
			e = NewEnv(&spec)
			e.Coll = godiNewCollection()
			m = &Model{Spec: &spec, Services: map[Ident]RegOut{}, Groups: map[Ident][]RegOut{}, regs: map[int]*kit.Reg{}}
			for i := range spec.Regs {
				rp := &spec.Regs[i]
				if rp.ID == 2 {
					continue
				}
				e.AddErrs = append(e.AddErrs, e.W.Add(e.Coll, rp))
				m.AddErr = append(m.AddErr, m.Add(rp))
			}
			rm := func(t, k string) {
				if k == "" {
					e.Coll.Remove(kit.TypeOf(t))
				} else {
					e.Coll.RemoveKeyed(kit.TypeOf(t), k)
				}
				m.Remove(t, k)
			}
			if c.Remove == "first" || c.Remove == "both" {
				rm("P0", "")
			}
			if c.Remove == "second" || c.Remove == "both" {
				rm("P1", secondKey)
			}
			if c.Readd {
				rp := &spec.Regs[len(spec.Regs)-1]
				e.AddErrs = append(e.AddErrs, e.W.Add(e.Coll, rp))
				m.AddErr = append(m.AddErr, m.Add(rp))
			}
			p, did := kit.Try(func() { e.Prov, e.BuildErr = e.Coll.Build() })
			if did {
				e.BuildPanic = p
			}
			if e.Prov != nil {
				e.Do(Op{Kind: "scope", Bind: "s1"})
				probeUniverse(e, "s1", []string{"P0", "P1", "P2"}, []string{"", "k"}, nil)
				e.Do(Op{Kind: "close", Scope: ""})
			}
		})
		r.Executions++
		r.Validated++
		r.States++
		r.Transitions += int64(len(e.Results) + 3)
		cc := cfgCase{N: 1, Life: []string{c.Life}, Target: []string{"plain"}}
		// the resolvability clause speaks about registered identities only
		all := e.Results
		var reg []*Res
		for _, rr := range all {
			if rr.Op.Kind == "get" {
				if _, ok := m.Services[Ident{T: rr.Op.T, Key: rr.Op.Key}]; !ok {
					continue
				}
			}
			reg = append(reg, rr)
		}
		e.Results = reg
		fs := c08Oracle(cc, e, m)
		e.Results = all
		if e.Prov != nil {
			fs = append(fs, e.ProbeOracle(m)...)
		}
		fs = append(fs, genericFindings(nil, s)...)
		v := "ok"
		if e.BuildErr != nil {
			v = kit.ClassOf(e.BuildErr)
		}
		r.Outcome(fmt.Sprintf("multi form=%s remove=%s dep=%v verdict=%s model=%s", c.Form, c.Remove, c.DepReg, v, m.Verdict()))
		for _, f := range fs {
			f.F["dependent"] = c.Form
			f.F["remove"] = c.Remove
			r.Violate(f.F, f.Detail+fmt.Sprintf("\n  two-output %s constructor (%s) depending on P2 (registered=%v), Remove=%s, re-add first=%v", c.Form, c.Life, c.DepReg, c.Remove, c.Readd), c)
		}
	}
	if r.Only != nil {
		var c c08MultiCase
		if json.Unmarshal(r.Only, &c) == nil && c.Form != "" {
			run(c)
		}
		return
	}
	for _, life := range []string{"singleton", "scoped", "transient"} {
		for _, form := range []string{"multi", "resobj"} {
			for _, dep := range []bool{true, false} {
				for _, rm := range []string{"none", "first", "second", "both"} {
					for _, readd := range []bool{false, true} {
						if readd && rm != "first" && rm != "both" {
							continue
						}
						run(c08MultiCase{Life: life, Form: form, DepReg: dep, Remove: rm, Readd: readd})
					}
				}
			}
		}
	}
}

func godiNewCollection() godi.Collection { return godi.NewCollection() }

// ---- dependencies on the built-in injectables, with and without a key
//
// Context, Scope and Provider are injected only when requested WITHOUT a key; the same
// types under a key (or as a group) are ordinary identities nobody can register. Every
// dependent lifetime x form {In struct, void initializer} x built-in x {plain, keyed,
// keyed optional, group} x one or two such fields: the model decides "missing"; a Build
// that succeeds must leave nothing unresolvable.

type c08BuiltinCase struct {
	Life string    `json:"life"`
	Kind string    `json:"kind"`
	Deps []kit.Dep `json:"deps"`
}

func c08Builtins(r *mc.Report) {
	run := func(c c08BuiltinCase) {
		r0 := kit.Reg{ID: 0, Life: c.Life, Kind: c.Kind, In: true, Deps: c.Deps}
		if c.Kind == "" {
			r0.Outs = []kit.Out{{T: "P0"}}
		}
		spec := kit.Spec{Regs: []kit.Reg{r0, {ID: 1, Life: "scoped", Outs: []kit.Out{{T: "P1"}}}}}
		m := NewModel(&spec)
		var e *Env
		s := seqOnce(func() {
			e = NewEnv(&spec)
			e.Build()
			if e.Prov != nil {
				e.Do(Op{Kind: "scope", Bind: "s1"})
				e.Do(Op{Kind: "get", Scope: "s1", T: "P0"})
				e.Do(Op{Kind: "scope", Scope: "s1", Bind: "s2"})
				e.Do(Op{Kind: "get", Scope: "s2", T: "P0"})
				e.Do(Op{Kind: "get", Scope: "", T: "P0"})
				e.Do(Op{Kind: "close", Scope: ""})
			}
		})
		r.Executions++
		r.Validated++
		r.States++
		r.Transitions += int64(len(e.Results) + 1)
		verdict := m.Verdict()
		r.Outcome(fmt.Sprintf("builtin deps: model=%s build=%s", verdict, kit.ClassOf(e.BuildErr)))
		var fs []Finding
		if e.BuildPanic != nil {
			fs = append(fs, Finding{feat("clause", "build-panic"), fmt.Sprint(e.BuildPanic)})
		}
		if verdict == "ok" && e.BuildErr != nil {
			fs = append(fs, Finding{feat("clause", "valid-set-rejected", "edge-forms", "builtin", "class", kit.ClassOf(e.BuildErr)),
				"Build failed on a set whose only dependencies are built-in injectables / optional: " + firstLine(e.BuildErr.Error())})
		}
		for _, rr := range e.Results {
			if rr.Skipped || c.Kind != "" && rr.Op.Kind == "get" {
				continue // an initializer has no identity to resolve; scope creation runs it
			}
			if rr.Panic != nil {
				fs = append(fs, Finding{feat("clause", "panic", "op", rr.Op.Kind), fmt.Sprintf("%s panicked: %v", rr.Op, rr.Panic)})
			} else if rr.Err != nil && strings.Contains(rr.Class, "notfound") && (rr.Op.Kind == "get" || rr.Op.Kind == "scope") {
				fs = append(fs, Finding{feat("clause", "notfound-after-build", "op", rr.Op.Kind, "edge-forms", "keyed-builtin"),
					fmt.Sprintf("Build succeeded, yet %s fails with 'service not found': %v", rr.Op, firstLine(rr.Err.Error()))})
			} else if verdict == "ok" && rr.Err != nil && (rr.Op.Kind == "get" || rr.Op.Kind == "scope") {
				fs = append(fs, Finding{feat("clause", "valid-set-unresolvable", "op", rr.Op.Kind, "class", rr.Class, "edge-forms", "builtin"),
					fmt.Sprintf("valid set built, yet %s failed: %v", rr.Op, firstLine(rr.Err.Error()))})
			}
		}
		fs = append(fs, genericFindings(nil, s)...)
		for _, f := range fs {
			r.Violate(f.F, f.Detail+fmt.Sprintf("\n  dependent: %s %s with dependencies %+v", c.Life, map[string]string{"": "constructor", "void": "initializer", "voiderr": "error-only initializer"}[c.Kind], c.Deps), c)
		}
		if len(r.Samples) < 2 {
			r.Sample(map[string]any{"case": c, "model": verdict, "build": kit.ClassOf(e.BuildErr)})
		}
	}
	if r.Only != nil {
		var c c08BuiltinCase
		if json.Unmarshal(r.Only, &c) == nil && c.Life != "" {
			run(c)
		}
		return
	}
	var one []kit.Dep
	for _, t := range []string{"ctx", "scope", "provider"} {
		one = append(one, kit.Dep{T: t}, kit.Dep{T: t, Key: "k"}, kit.Dep{T: t, Key: "k", Opt: true}, kit.Dep{T: t, Opt: true}, kit.Dep{T: t, Group: "g"})
	}
	for _, life := range []string{"singleton", "scoped", "transient"} {
		for _, kind := range []string{"", "void", "voiderr"} {
			if kind != "" && life == "transient" {
				continue
			}
			for i, a := range one {
				run(c08BuiltinCase{Life: life, Kind: kind, Deps: []kit.Dep{a}})
				for _, b := range one[i+1:] {
					run(c08BuiltinCase{Life: life, Kind: kind, Deps: []kit.Dep{a, b}})
					run(c08BuiltinCase{Life: life, Kind: kind, Deps: []kit.Dep{b, {T: "P1", Opt: true}, a}})
				}
			}
		}
	}
}
