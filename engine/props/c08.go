package props

import (
	"encoding/json"
	"fmt"
	"strings"

	"github.com/junioryono/godi/v4/verifmc/kit"
	"github.com/junioryono/godi/v4/verifmc/mc"
)

// C08 — Build accepts exactly the registration sets whose services are resolvable.

func c08Oracle(c cfgCase, e *Env, m *Model) []Finding {
	var out []Finding
	verdict := m.Verdict()
	ef := edgeFormsOf(c)
	depKind := "ctor"
	if len(c.Kind) > 0 && c.Kind[0] != "" {
		depKind = "initializer"
	}
	life0 := c.Life[0]
	if e.BuildPanic != nil {
		out = append(out, Finding{feat("clause", "build-panic"), fmt.Sprint(e.BuildPanic)})
		return out
	}
	if verdict == "ok" && e.BuildErr != nil {
		out = append(out, Finding{feat("clause", "valid-set-rejected", "edge-forms", ef, "dependent", depKind, "class", kit.ClassOf(e.BuildErr)),
			"Build failed on a set with no cycle, no lifetime conflict and no missing required dependency: " + firstLine(e.BuildErr.Error())})
	}
	if strings.Contains(verdict, "missing") && e.BuildErr == nil {
		out = append(out, Finding{feat("clause", "missing-dependency-accepted", "edge-forms", ef, "dependent", depKind, "dependent-life", life0),
			"Build succeeded although a registered service has a required dependency that is neither registered nor built-in"})
	}
	if e.Prov != nil {
		for _, r := range e.Results {
			if r.Skipped {
				continue
			}
			if r.Panic != nil {
				out = append(out, Finding{feat("clause", "panic", "op", r.Op.Kind), fmt.Sprintf("%s panicked: %v", r.Op, r.Panic)})
				continue
			}
			if (r.Op.Kind == "get" || r.Op.Kind == "group" || r.Op.Kind == "scope") && r.Err != nil && strings.Contains(r.Class, "notfound") {
				out = append(out, Finding{feat("clause", "notfound-after-build", "op", r.Op.Kind, "edge-forms", ef, "dependent", depKind),
					fmt.Sprintf("Build succeeded, yet %s fails with 'service not found': %v", r.Op, firstLine(r.Err.Error()))})
			}
			if verdict == "ok" && r.Err != nil && (r.Op.Kind == "get" || r.Op.Kind == "group" || r.Op.Kind == "scope") {
				out = append(out, Finding{feat("clause", "valid-set-unresolvable", "op", r.Op.Kind, "class", r.Class, "edge-forms", ef),
					fmt.Sprintf("valid set built, yet %s failed: %v", r.Op, firstLine(r.Err.Error()))})
			}
		}
	}
	return out
}

func c08Enumerate(r *mc.Report, n int, lifes [][]string, shard, nshards int) {
	if r.Only != nil {
		var c cfgCase
		if json.Unmarshal(r.Only, &c) == nil && c.N == n && len(c.Life) == n {
			cfgRun(r, c, c08Oracle)
		}
		return
	}
	k := 0
	for _, mask := range dagMasks(n) {
		// every edge mask restricted to "optional" variants: none, all, only edges into missing services
		for missing := uint32(0); missing < 1<<n; missing += 2 { // service 0 is always registered
			for _, life := range lifes {
				k++
				if nshards > 1 && k%nshards != shard {
					continue
				}
				for _, form := range []string{"plain", "keyed", "group"} {
					t := uniformTargets(n, form)
					var optIntoMissing uint32
					for i := 0; i < n; i++ {
						for j := 0; j < n; j++ {
							if mask&(1<<(i*n+j)) != 0 && missing&(1<<j) != 0 {
								optIntoMissing |= 1 << (i*n + j)
							}
						}
					}
					opts := []uint32{0, mask}
					if optIntoMissing != 0 && optIntoMissing != mask {
						opts = append(opts, optIntoMissing)
					}
					for _, opt := range opts {
						for _, kind0 := range []string{"", "void", "voiderr"} {
							if kind0 != "" && life[0] == "transient" {
								continue // initializer functions are singleton- or scope-level
							}
							kinds := make([]string, n)
							kinds[0] = kind0
							cfgRun(r, cfgCase{N: n, Mask: mask, Life: life, Target: t, Shape: "in", Missing: missing, OptMask: opt, Kind: kinds}, c08Oracle)
							if form == "plain" && opt == 0 {
								cfgRun(r, cfgCase{N: n, Mask: mask, Life: life, Target: t, Shape: "positional", Missing: missing, Kind: kinds}, c08Oracle)
							}
						}
					}
				}
			}
		}
	}
}

func init() {
	mc.Register(&mc.Check{
		Prop: "C08",
		Rule: "all dependency DAGs on <=3 services (4 in thorough; quick covers 4 services with uniform lifetimes) x every subset of the non-root services left unregistered x all lifetime assignments x dependency form {plain, keyed, group} x optional-ness {no edge, every edge, exactly the edges into unregistered services} x dependent form {constructor with In struct, positional constructor, void initializer, error-only initializer}; oracle: Build must succeed iff the model finds no lifetime conflict and no missing required dependency; after a successful Build every registered identity is resolved from a scope, its child and again and no resolution / scope creation may fail with 'service not found' (or fail at all when the model says valid). distinct = (size, edge forms, verdict, model verdict) classes.",
		Assume:      []string{"built-in injectables are context.Context, Scope and Provider without a key"},
		MinOutcomes: 6,
		Jobs: func(tier string) []mc.Job {
			jobs := []mc.Job{
				{Name: "c08-n1", Run: func(r *mc.Report) { c08Enumerate(r, 1, lifeAssignments(1), 0, 1) }},
				{Name: "c08-n2", Run: func(r *mc.Report) { c08Enumerate(r, 2, lifeAssignments(2), 0, 1) }},
			}
			for sh := 0; sh < 6; sh++ {
				sh := sh
				jobs = append(jobs, mc.Job{Name: fmt.Sprintf("c08-n3#%d", sh), Weight: 5, Run: func(r *mc.Report) { c08Enumerate(r, 3, lifeAssignments(3), sh, 6) }})
			}
			l4 := [][]string{uniformTargets(4, "singleton"), uniformTargets(4, "scoped"), uniformTargets(4, "transient"), {"scoped", "singleton", "transient", "singleton"}, {"singleton", "transient", "singleton", "transient"}}
			ns := 8
			if tier == "thorough" {
				l4 = lifeAssignments(4)
				ns = 32
			}
			for sh := 0; sh < ns; sh++ {
				sh := sh
				jobs = append(jobs, mc.Job{Name: fmt.Sprintf("c08-n4#%d", sh), Weight: 10, Run: func(r *mc.Report) { c08Enumerate(r, 4, l4, sh, ns) }})
			}
			return jobs
		},
	})
}
