package props

import (
	"encoding/json"
	"fmt"

	"github.com/junioryono/godi/v4/internal/vsched"
	"github.com/junioryono/godi/v4/verifmc/kit"
	"github.com/junioryono/godi/v4/verifmc/mc"
)

// histCfg describes an exhaustive enumeration of sequential operation
// histories on one spec.
type histCfg struct {
	Name      string
	Spec      kit.Spec
	Faults    map[string]string
	CloseFail []string
	Probes    []Op // get/group templates (Scope filled in per target)
	MaxScopes int
	Depth     int
	CtxKinds  []string          // context kinds offered to CreateScope
	NoProvOps bool              // do not resolve directly on the provider
	Final     []Op              // appended to every history (not counted in depth)
	AlphaFn   func(h []Op) []Op // custom alphabet (replaces the generic one)
	AutoGet   *Op               // issued on every freshly created scope (not counted in depth)
	Extra     []Op              // further operations offered verbatim in every state (e.g. edits of the collection)
	Oracle    func(e *Env, s *vsched.Sched, h []Op) []Finding
}

type histCase struct {
	Cfg     string            `json:"cfg"`
	History []Op              `json:"history"`
	Faults  map[string]string `json:"faults,omitempty"`
}

// alphabet lists the operations enabled after history h (scopes are named
// s1, s2, … in creation order; creation is offered while fewer than MaxScopes
// exist).
func (c *histCfg) alphabet(h []Op) []Op {
	if c.AlphaFn != nil {
		return c.AlphaFn(h)
	}
	var names []string
	hasCancel := map[string]bool{}
	for _, o := range h {
		if o.Kind == "scope" {
			names = append(names, o.Bind)
			if o.Ctx == "cancel" || o.Ctx == "pcancel" {
				hasCancel[o.Bind] = true
			}
		}
	}
	var out []Op
	targets := append([]string{""}, names...)
	if len(names) < c.MaxScopes {
		next := fmt.Sprintf("s%d", len(names)+1)
		kinds := c.CtxKinds
		if len(kinds) == 0 {
			kinds = []string{""}
		}
		for _, t := range targets {
			for _, k := range kinds {
				out = append(out, Op{Kind: "scope", Scope: t, Bind: next, Ctx: k})
			}
		}
	}
	for _, t := range targets {
		if t == "" && c.NoProvOps {
			continue
		}
		for _, p := range c.Probes {
			p.Scope = t
			out = append(out, p)
		}
	}
	for _, t := range targets {
		out = append(out, Op{Kind: "close", Scope: t})
	}
	for _, n := range names {
		if hasCancel[n] {
			out = append(out, Op{Kind: "cancel", Scope: n})
		}
	}
	out = append(out, c.Extra...)
	return out
}

func (c *histCfg) runOne(h []Op) (*Env, *vsched.Sched) {
	var e *Env
	s := seqOnce(func() {
		e = NewEnv(&c.Spec)
		for k, v := range c.Faults {
			e.W.Faults[k] = v
		}
		for _, l := range c.CloseFail {
			e.W.CloseFail[l] = true
		}
		e.Build()
		if e.Prov == nil {
			return
		}
		for _, op := range h {
			e.Do(op)
			if op.Kind == "cancel" {
				e.Do(Op{Kind: "settle"})
			}
			if op.Kind == "scope" && c.AutoGet != nil {
				g := *c.AutoGet
				g.Scope = op.Bind
				e.Do(g)
			}
		}
		for _, op := range c.Final {
			e.Do(op)
		}
	})
	return e, s
}

// explore runs every history extending prefix up to the depth bound.
func (c *histCfg) explore(r *mc.Report, prefix []Op) {
	if r.Only != nil {
		var hc histCase
		if err := json.Unmarshal(r.Only, &hc); err != nil {
			r.MachErr = append(r.MachErr, err.Error())
			return
		}
		if hc.Cfg != c.Name {
			return
		}
		e, s := c.runOne(hc.History)
		r.Executions++
		fmt.Println("outcome:", e.Summary())
		if e.BuildErr != nil {
			fmt.Println("   build error:", firstLine(e.BuildErr.Error()))
		}
		for _, in := range e.W.Insts {
			fmt.Printf("   instance %s disposable=%v closes=%d\n", in.Label(), in.Disp, len(in.Closes))
		}
		for _, f := range append(genericFindings(e, s), c.Oracle(e, s, hc.History)...) {
			r.Violate(f.F, f.Detail, hc)
		}
		return
	}
	var rec func(h []Op)
	rec = func(h []Op) {
		e, s := c.runOne(h)
		r.Executions++
		r.States++
		r.Validated++
		r.Transitions += int64(len(h) + len(c.Final))
		r.Outcome(c.Name + " | " + e.Summary())
		for _, f := range append(genericFindings(e, s), c.Oracle(e, s, h)...) {
			f.F["cfg"] = scenFamily(c.Name)
			hs := make([]string, len(h))
			for i, o := range h {
				hs[i] = o.String()
			}
			r.Violate(f.F, f.Detail+fmt.Sprintf("\n  config %s, history %v\n  outcome: %s", c.Name, hs, e.Summary()), histCase{Cfg: c.Name, History: append([]Op{}, h...)})
		}
		if len(r.Samples) < 2 && len(h) == c.Depth {
			r.Sample(map[string]any{"config": c.Name, "history": h, "observed": e.Summary()})
		}
		if len(h) >= c.Depth || e.Prov == nil {
			return
		}
		for _, op := range c.alphabet(h) {
			rec(append(append([]Op{}, h...), op))
		}
	}
	rec(prefix)
}

// jobs shards the enumeration by first operation.
func (c *histCfg) jobs() []mc.Job {
	var out []mc.Job
	out = append(out, mc.Job{Name: c.Name + "/root", Run: func(r *mc.Report) {
		if r.Only != nil {
			c.explore(r, nil)
			return
		}
		// the empty history itself
		d := c.Depth
		c.Depth = 0
		c.explore(r, nil)
		c.Depth = d
	}})
	for i, op := range c.alphabet(nil) {
		op := op
		out = append(out, mc.Job{Name: fmt.Sprintf("%s/first-%d", c.Name, i), Run: func(r *mc.Report) {
			if r.Only != nil {
				return
			}
			c.explore(r, []Op{op})
		}})
	}
	return out
}

// closedModel replays a sequential history on the trivial "closed means
// closed" model and returns, per operation index, whether its target was
// closed when the operation started.
func closedModel(h []*Res) map[*Res]bool {
	closed := map[string]bool{}
	parent := map[string]string{}
	prov := false
	out := map[*Res]bool{}
	var closeTree func(n string)
	closeTree = func(n string) {
		closed[n] = true
		for c, p := range parent {
			if p == n && !closed[c] {
				closeTree(c)
			}
		}
	}
	for _, r := range h {
		if r.Skipped {
			continue
		}
		tgtClosed := prov
		if r.Op.Scope != "" {
			tgtClosed = closed[r.Op.Scope]
		}
		out[r] = tgtClosed
		switch r.Op.Kind {
		case "scope":
			if !tgtClosed && r.Err == nil {
				parent[r.Op.Bind] = r.Op.Scope
			}
		case "close":
			if r.Op.Scope == "" {
				prov = true
				for n := range parent {
					closed[n] = true
				}
			} else if !tgtClosed {
				closeTree(r.Op.Scope)
			}
		case "cancel":
			if _, ok := parent[r.Op.Scope]; ok && !closed[r.Op.Scope] {
				closeTree(r.Op.Scope)
			}
		}
	}
	return out
}
