package props

import (
	"fmt"
	"strings"

	"github.com/junioryono/godi/v4/internal/vsched"
	"github.com/junioryono/godi/v4/verifmc/kit"
	"github.com/junioryono/godi/v4/verifmc/mc"
)

// C09 — providers and scopes are safe for concurrent use.

var c09Alphabet = map[string]Op{
	"get-scoped":       {Kind: "get", Scope: "s1", T: "D1"},
	"get-transient":    {Kind: "get", Scope: "s1", T: "D2"},
	"get-singleton":    {Kind: "get", Scope: "s1", T: "D0"},
	"get-group":        {Kind: "group", Scope: "s1", T: "D3", Group: "g"},
	"get-keyed":        {Kind: "get", Scope: "s1", T: "P5", Key: "k"},
	"get-other-scope":  {Kind: "get", Scope: "s2", T: "D1"},
	"get-3param":       {Kind: "get", Scope: "s1", T: "P4"},
	"get-3param-other": {Kind: "get", Scope: "s2", T: "P4"},
	"provider-get":     {Kind: "get", Scope: "", T: "D1"},
	"create-scope":     {Kind: "scope", Scope: "", Bind: "n"},
	"create-child":     {Kind: "scope", Scope: "s1", Bind: "n"},
	"close-scope":      {Kind: "close", Scope: "s1"},
	"close-parent":     {Kind: "close", Scope: "s0"},
	"close-provider":   {Kind: "close", Scope: ""},
	"cancel-scope":     {Kind: "cancel", Scope: "s1"},
}

var c09Names = []string{"get-scoped", "get-transient", "get-singleton", "get-group", "get-keyed", "get-other-scope", "get-3param", "get-3param-other", "provider-get",
	"create-scope", "create-child", "close-scope", "close-parent", "close-provider", "cancel-scope"}

func c09Scenario(ops []string, withInit bool) *Scenario {
	sc := &Scenario{Name: fmt.Sprintf("program/%s/init=%v", strings.Join(ops, "+"), withInit), Spec: mixSpec(withInit)}
	sc.Setup = []Op{{Kind: "scope", Bind: "s0"}, {Kind: "scope", Scope: "s0", Bind: "s1", Ctx: "cancel"}, {Kind: "scope", Bind: "s2"}}
	for i, n := range ops {
		o := c09Alphabet[n]
		if o.Kind == "scope" {
			o.Bind = fmt.Sprintf("n%d", i)
		}
		sc.Threads = append(sc.Threads, []Op{o})
	}
	sc.Final = []Op{{Kind: "settle"}, {Kind: "close", Scope: ""}, {Kind: "settle"}}
	return sc
}

func c09Oracle(e *Env, s *vsched.Sched) []Finding {
	var out []Finding
	if e.Prov == nil {
		return []Finding{{feat("clause", "build-failed"), fmt.Sprint(e.BuildErr)}}
	}
	for _, r := range e.Results {
		if r.Thread == 0 || r.Skipped || r.Panic != nil {
			continue
		}
		if r.Err != nil && !strings.Contains(r.Class, "disposed") && !strings.Contains(r.Class, "injected") {
			out = append(out, Finding{feat("clause", "undocumented-error", "op", r.Op.Kind, "class", r.Class),
				fmt.Sprintf("%s returned %q, which is not one of the documented errors for concurrent use", r.Op, r.Err)})
		}
	}
	out = append(out, e.LifetimeOracle()...)
	out = append(out, e.WiringOracle(NewModel(e.W.Spec))...)
	for _, f := range e.DisposalOracle(true) {
		// disposal is C10's subject; here only double closes (a lifetime-rule breach visible to callers)
		if f.F["clause"] == "closed-twice" {
			out = append(out, f)
		}
	}
	if len(s.Leaked) > 0 {
		out = append(out, Finding{feat("clause", "goroutine-left-after-provider-close"), fmt.Sprintf("goroutines still waiting after provider close: %v", s.Leaked)})
	}
	return out
}

func init() {
	mc.Register(&mc.Check{
		Prop:        "C09",
		Rule:        "programs: every multiset of 2 operations (quick: preemption bound 1, bound 2 for 10 core pairs; thorough: bound 2, bound 3 for the core pairs without group resolution) and every multiset of 3 operations that contains a Close / cancel / CreateScope (thorough, bound 1) from a 15-operation alphabet (resolutions of every lifetime, by key and group, on the shared scope / another scope / the provider; scope and child-scope creation; Close of the scope, its parent, the provider; context cancellation), one operation per goroutine on one shared provider, with and without a scoped initializer; plus sibling outputs of one multi-output registration (result object / multiple returns / two aliases; scoped and transient) requested concurrently in one scope; a scoped initializer that calls back into the container (creates a child scope on its injected Scope) against Close(provider) / CreateScope / a resolution (bound 2/3); all schedules within the preemption bound; a vector-clock happens-before race detector over every field access of godi's own structs runs on every execution. Auxiliary (sampling, not the deciding step): 14 free-running programs on the UNREWRITTEN godi under the Go race detector, 150 (1500) iterations each; a report with both accesses inside godi's packages is a violation. An outcome is the canonical observation string of one execution.",
		Assume:      []string{"sync.RWMutex is modelled with Go's documented writer preference (a pending Lock excludes new readers), so recursive read-locking under a pending writer deadlocks as in reality", "sequentially consistent interleavings at synchronisation granularity; the race detector covers fields of godi's struct types only", "user code (constructors, Close methods) yields on entry"},
		MinOutcomes: 10,
		Jobs: func(tier string) []mc.Job {
			var jobs []mc.Job
			add := func(ops []string, wi bool, pb int) {
				sc := c09Scenario(ops, wi)
				w := pb * 10
				if wi {
					w += 5
				}
				ns := 1
				if pb == 2 {
					ns = 4
				} else if pb >= 3 {
					ns = 12
				}
				for sh := 0; sh < ns; sh++ {
					sh := sh
					name := sc.Name
					if ns > 1 {
						name = fmt.Sprintf("%s#%d", sc.Name, sh)
					}
					jobs = append(jobs, mc.Job{Name: name, Weight: w, Run: func(r *mc.Report) {
						exploreScenario(r, sc, mc.Bounds{Preempt: pb, Shard: sh, NShards: ns}, c09Oracle)
					}})
				}
			}
			n := len(c09Names)
			core := map[string]bool{}
			for _, p := range [][2]string{{"get-scoped", "get-scoped"}, {"get-3param", "get-3param-other"}, {"get-3param", "get-3param"}, {"get-scoped", "close-scope"}, {"get-transient", "close-scope"},
				{"get-keyed", "cancel-scope"}, {"create-child", "close-scope"},
				{"create-scope", "close-provider"}, {"provider-get", "close-provider"}, {"get-scoped", "close-provider"},
				{"get-group", "get-group"}, {"get-scoped", "get-group"}, {"close-scope", "close-scope"}, {"close-scope", "cancel-scope"}} {
				core[p[0]+"+"+p[1]] = true
			}
			for i := 0; i < n; i++ {
				for j := i; j < n; j++ {
					isCore := core[c09Names[i]+"+"+c09Names[j]]
					pb := 1
					if isCore {
						pb = 2
					}
					if tier == "thorough" {
						pb = 2
						if isCore && !strings.Contains(c09Names[i]+c09Names[j], "group") {
							pb = 3
						}
					}
					add([]string{c09Names[i], c09Names[j]}, false, pb)
					if tier == "thorough" {
						add([]string{c09Names[i], c09Names[j]}, true, 1)
					} else if isCore && (i+j)%2 == 0 {
						add([]string{c09Names[i], c09Names[j]}, true, 1)
					}
				}
			}
			// sibling outputs of ONE scoped / transient multi-output registration (result object, multiple returns,
			// two aliases) requested concurrently in one scope: the waiter must get its output, not an error
			{
				mspec := kit.Spec{Regs: []kit.Reg{
					{ID: 0, Life: "singleton", Outs: []kit.Out{{T: "D0"}}},
					{ID: 1, Life: "scoped", ResObj: true, Outs: []kit.Out{{T: "D4"}, {T: "D5"}}, Deps: []kit.Dep{{T: "D0"}}},
					{ID: 2, Life: "scoped", Outs: []kit.Out{{T: "P0"}, {T: "P1"}}},
					{ID: 3, Life: "scoped", Outs: []kit.Out{{T: "D2"}}, As: []string{"IA", "IB"}},
					{ID: 4, Life: "transient", ResObj: true, Outs: []kit.Out{{T: "P2"}, {T: "P3", Key: "k"}}},
				}}
				g := func(t, k string) []Op { return []Op{{Kind: "get", Scope: "s1", T: t, Key: k}} }
				mk := func(name string, threads ...[]Op) {
					sc := &Scenario{Name: "program/siblings-" + name, Spec: mspec, Setup: []Op{{Kind: "scope", Bind: "s1"}}, Threads: threads,
						Final: []Op{{Kind: "get", Scope: "s1", T: "D4"}, {Kind: "get", Scope: "s1", T: "P1"}, {Kind: "get", Scope: "s1", T: "IB"}, {Kind: "settle"}, {Kind: "close", Scope: ""}, {Kind: "settle"}}}
					pb := 2
					if tier == "thorough" {
						pb = 3
					}
					if len(threads) > 2 {
						pb--
					}
					jobs = append(jobs, mc.Job{Name: sc.Name, Weight: 30, Run: func(r *mc.Report) { exploreScenario(r, sc, mc.Bounds{Preempt: pb}, c09Oracle) }})
				}
				mk("resobj", g("D4", ""), g("D5", ""))
				mk("multi-return", g("P0", ""), g("P1", ""))
				mk("aliases", g("IA", ""), g("IB", ""))
				mk("transient-resobj", g("P2", ""), g("P3", "k"))
				mk("resobj-x3", g("D4", ""), g("D5", ""), g("D5", ""))
			}
			// three resolvers of one scoped service, the first construction failing (the waiter retries while a third arrives)
			{
				sc := c09Scenario([]string{"get-scoped", "get-scoped", "get-scoped"}, false)
				sc.Name = "program/get-scoped-x3-first-fails"
				sc.Spec.Regs[1].Err = true
				sc.Faults = map[string]string{"1:1": "err"}
				for sh := 0; sh < 4; sh++ {
					sh := sh
					jobs = append(jobs, mc.Job{Name: fmt.Sprintf("%s#%d", sc.Name, sh), Weight: 30, Run: func(r *mc.Report) {
						exploreScenario(r, sc, mc.Bounds{Preempt: 2, Shard: sh, NShards: 4}, c09Oracle)
					}})
				}
			}
			// user code calling back into the container: a scoped initializer that creates a child scope on its
			// injected Scope, while the provider / the parent scope is closed or another scope is created
			for _, other := range []string{"close-provider", "create-scope", "get-scoped"} {
				sc := &Scenario{Name: "program/initializer-creates-child+" + other, Spec: mixSpec(false)}
				sc.Spec.Regs = append(sc.Spec.Regs, kit.Reg{ID: 8, Life: "scoped", Kind: "void", Deps: []kit.Dep{{T: "scope"}}, ChildAt: 3})
				sc.Setup = []Op{{Kind: "scope", Bind: "s1"}}
				o := c09Alphabet[other]
				if o.Kind == "scope" {
					o.Bind = "n1"
				}
				sc.Threads = [][]Op{{{Kind: "scope", Scope: "", Bind: "n0"}}, {o}}
				sc.Final = []Op{{Kind: "settle"}, {Kind: "close", Scope: ""}, {Kind: "settle"}}
				pb := 2
				if tier == "thorough" {
					pb = 3
				}
				jobs = append(jobs, mc.Job{Name: sc.Name, Weight: 25, Run: func(r *mc.Report) {
					exploreScenario(r, sc, mc.Bounds{Preempt: pb}, c09Oracle)
				}})
			}
			jobs = append(jobs, auxRaceJob(tier))
			if tier == "thorough" {
				for i := 0; i < n; i++ {
					for j := i; j < n; j++ {
						for k := j; k < n; k++ {
							trio := c09Names[i] + c09Names[j] + c09Names[k]
							if !strings.Contains(trio, "close") && !strings.Contains(trio, "cancel") && !strings.Contains(trio, "create") {
								continue // three pure resolutions: covered by the pairs at a higher bound
							}
							add([]string{c09Names[i], c09Names[j], c09Names[k]}, false, 1)
						}
					}
				}
			}
			return jobs
		},
	})
}
