package props

import (
	"encoding/json"
	"fmt"
	"reflect"
	"strings"

	"github.com/junioryono/godi/v4"
	"github.com/junioryono/godi/v4/verifmc/kit"
	"github.com/junioryono/godi/v4/verifmc/mc"
)

// C17 — the collection is an exact, atomic registry and Build takes a snapshot.

type cop struct {
	Kind string  `json:"k"` // add | remove | removekeyed | module
	Reg  kit.Reg `json:"reg,omitempty"`
	T    string  `json:"t,omitempty"`
	Key  string  `json:"key,omitempty"`
	Mod  []cop   `json:"mod,omitempty"`
	Name string  `json:"name"`
}

func c17Alphabet() []cop {
	add := func(name string, r kit.Reg) cop { return cop{Kind: "add", Reg: r, Name: name} }
	sg := "singleton"
	return []cop{
		add("P0", kit.Reg{Life: sg, Outs: []kit.Out{{T: "P0"}}}),
		add("P0-scoped", kit.Reg{Life: "scoped", Outs: []kit.Out{{T: "P0"}}}),
		add("P0@k", kit.Reg{Life: sg, Outs: []kit.Out{{T: "P0"}}, Name: "k"}),
		add("P0[g]", kit.Reg{Life: sg, Outs: []kit.Out{{T: "P0"}}, Group: "g"}),
		add("P1", kit.Reg{Life: sg, Outs: []kit.Out{{T: "P1"}}}),
		add("(P0,P1)", kit.Reg{Life: sg, Outs: []kit.Out{{T: "P0"}, {T: "P1"}}}),
		add("(P1,P2)", kit.Reg{Life: sg, Outs: []kit.Out{{T: "P1"}, {T: "P2"}}}),
		add("out{P2,P0}", kit.Reg{Life: sg, ResObj: true, Outs: []kit.Out{{T: "P2"}, {T: "P0"}}}),
		add("out{P2,P1@k}", kit.Reg{Life: sg, ResObj: true, Outs: []kit.Out{{T: "P2"}, {T: "P1", Key: "k"}}}),
		add("D0-as-IA", kit.Reg{Life: sg, Outs: []kit.Out{{T: "D0"}}, As: []string{"IA"}}),
		add("P2-as-IA+IB", kit.Reg{Life: "transient", Outs: []kit.Out{{T: "P2"}}, As: []string{"IA", "IB"}}),
		add("(P2,P2)", kit.Reg{Life: sg, Outs: []kit.Out{{T: "P2"}, {T: "P2"}}}),
		add("D0-as-IA+IA", kit.Reg{Life: sg, Outs: []kit.Out{{T: "D0"}}, As: []string{"IA", "IA"}}),
		add("out{P1,P1}", kit.Reg{Life: sg, ResObj: true, Outs: []kit.Out{{T: "P1"}, {T: "P1"}}}),
		add("inst-P1", kit.Reg{Life: sg, Kind: "instance", Outs: []kit.Out{{T: "P1"}}}),
		add("bad-name+group", kit.Reg{Life: sg, Outs: []kit.Out{{T: "P2"}}, Name: "k", Group: "g"}),
		// scoped initializer functions (no result): registered under (struct{}, name) and run for every new scope
		add("init@i1", kit.Reg{Life: "scoped", Kind: "void", Name: "i1"}),
		add("init@i2-singleton", kit.Reg{Life: sg, Kind: "void", Name: "i2"}),
		add("bad-backquote", kit.Reg{Life: sg, Outs: []kit.Out{{T: "P2"}}, Name: "a`b"}),
		// rejected for a reason found only at a LATER output: a reserved type as second return of a grouped registration
		add("bad-(P2,scope)[g]", kit.Reg{Life: sg, Outs: []kit.Out{{T: "P2"}, {T: "scope"}}, Group: "g"}),
		add("bad-out{P0[g],ctx[g]}", kit.Reg{Life: sg, ResObj: true, Outs: []kit.Out{{T: "P0", Group: "g"}, {T: "ctx", Group: "g"}}}),
		{Kind: "remove", T: "P0", Name: "Remove(P0)"},
		{Kind: "remove", T: "P1", Name: "Remove(P1)"},
		{Kind: "remove", T: "IA", Name: "Remove(IA)"},
		{Kind: "removekeyed", T: "P0", Key: "k", Name: "RemoveKeyed(P0,k)"},
		{Kind: "removekeyed", T: "P1", Key: "k", Name: "RemoveKeyed(P1,k)"},
		{Kind: "removekeyed", T: "void", Key: "i1", Name: "RemoveKeyed(struct{},i1)"},
		{Kind: "module", Name: "module[P1,P0]", Mod: []cop{add("P1", kit.Reg{Life: sg, Outs: []kit.Out{{T: "P1"}}}), add("P0", kit.Reg{Life: sg, Outs: []kit.Out{{T: "P0"}}})}},
	}
}

// c17Extra: operations that are not part of the full-alphabet search, only of reduced alphabets
// (their indices follow those of c17Alphabet).
func c17Extra() []cop {
	add := func(name string, r kit.Reg) cop { return cop{Kind: "add", Reg: r, Name: name} }
	sg := "singleton"
	return []cop{
		// instance registrations of NON-pointer values: several values of one Go type in one collection
		add("inst-V0", kit.Reg{Life: sg, Kind: "instance", Outs: []kit.Out{{T: "V0"}}}),
		add("inst-V0@k", kit.Reg{Life: sg, Kind: "instance", Outs: []kit.Out{{T: "V0"}}, Name: "k"}),
		add("bad-inst-V0-name+group", kit.Reg{Life: sg, Kind: "instance", Outs: []kit.Out{{T: "V0"}}, Name: "k", Group: "g"}),
		add("inst-V0[g]", kit.Reg{Life: sg, Kind: "instance", Outs: []kit.Out{{T: "V0"}}, Group: "g"}),
		{Kind: "remove", T: "V0", Name: "Remove(V0)"},
		{Kind: "removekeyed", T: "V0", Key: "k", Name: "RemoveKeyed(V0,k)"},
	}
}

func c17AllOps() []cop { return append(c17Alphabet(), c17Extra()...) }

var c17Types = []string{"P0", "P1", "P2", "D0", "IA", "IB", "V0"}

type c17State struct {
	w      *kit.World
	coll   godi.Collection
	m      *Model
	spec   *kit.Spec
	nextID int
	voids  int
}

func newC17State() *c17State {
	spec := &kit.Spec{}
	return &c17State{w: kit.NewWorld(spec), coll: godi.NewCollection(), spec: spec, m: NewModel(spec)}
}

func collDump(c godi.Collection) string {
	// the analyzer cache and the lock are not part of the registry: masked by field name and, in
	// case of a rename, by type name
	d := kit.NewDumper("collection.analyzer", "collection.mu")
	d.SkipType = map[string]bool{"Analyzer": true, "RWMutex": true, "Mutex": true}
	return d.Render(c)
}

// applyOne applies one add to collection and model; returns findings.
func (st *c17State) add(o cop) (errImpl error, classModel string, fs []Finding) {
	r := o.Reg
	r.ID = st.nextID
	st.nextID++
	st.spec.Regs = append(st.spec.Regs, r)
	rp := &st.spec.Regs[len(st.spec.Regs)-1]
	before := collDump(st.coll)
	p, did := kit.Try(func() { errImpl = st.w.Add(st.coll, rp) })
	classModel = st.m.Add(rp)
	st.m.AddErr = append(st.m.AddErr, classModel)
	if did {
		fs = append(fs, Finding{feat("clause", "panic", "op", "add"), fmt.Sprintf("Add(%s) panicked: %v", o.Name, p)})
		return
	}
	if (errImpl != nil) != (classModel != "") {
		fs = append(fs, Finding{feat("clause", "add-verdict", "form", regForm(rp), "model", orOK(classModel), "impl", kit.ClassOf(errImpl)),
			fmt.Sprintf("Add(%s): implementation returned %v, model says %q", o.Name, errImpl, orOK(classModel))})
	}
	if errImpl != nil {
		if classModel == "already" && !strings.Contains(kit.ClassOf(errImpl), "already") {
			fs = append(fs, Finding{feat("clause", "duplicate-not-already-registered", "form", regForm(rp), "class", kit.ClassOf(errImpl)),
				fmt.Sprintf("Add(%s) duplicates an identity but the error is not an already-registered error: %v", o.Name, errImpl)})
		}
		if after := collDump(st.coll); after != before {
			fs = append(fs, Finding{feat("clause", "rejected-add-mutated", "form", regForm(rp)),
				fmt.Sprintf("rejected Add(%s) changed the collection:\n  before %s\n  after  %s", o.Name, before, after)})
		}
	}
	return
}

func orOK(s string) string {
	if s == "" {
		return "ok"
	}
	return s
}

func (st *c17State) apply(o cop) []Finding {
	var fs []Finding
	switch o.Kind {
	case "add":
		_, _, f := st.add(o)
		fs = append(fs, f...)
	case "remove":
		st.coll.Remove(kit.TypeOf(o.T))
		st.m.Remove(o.T, "")
	case "removekeyed":
		st.coll.RemoveKeyed(kit.TypeOf(o.T), o.Key)
		st.m.Remove(o.T, o.Key)
	case "module":
		// module = the same adds issued left to right, stopping at the first failure
		var opts []godi.ModuleOption
		var regs []*kit.Reg
		for _, mo := range o.Mod {
			r := mo.Reg
			r.ID = st.nextID
			st.nextID++
			st.spec.Regs = append(st.spec.Regs, r)
		}
		base := len(st.spec.Regs) - len(o.Mod)
		for i := range o.Mod {
			rp := &st.spec.Regs[base+i]
			regs = append(regs, rp)
			f := st.w.Fn(rp)
			switch rp.Life {
			case "singleton":
				opts = append(opts, godi.AddSingleton(f, kit.Options(rp)...))
			case "scoped":
				opts = append(opts, godi.AddScoped(f, kit.Options(rp)...))
			default:
				opts = append(opts, godi.AddTransient(f, kit.Options(rp)...))
			}
		}
		err := st.coll.AddModules(godi.NewModule("m", opts...))
		failed := false
		for _, rp := range regs {
			if failed {
				st.m.AddErr = append(st.m.AddErr, "skipped")
				continue
			}
			cl := st.m.Add(rp)
			st.m.AddErr = append(st.m.AddErr, cl)
			if cl != "" {
				failed = true
			}
		}
		if (err != nil) != failed {
			fs = append(fs, Finding{feat("clause", "module-verdict"), fmt.Sprintf("AddModules(%s) returned %v, model failed=%v", o.Name, err, failed)})
		}
	}
	fs = append(fs, st.queries()...)
	return fs
}

// modelCount is the number of registrations a Build will use.
func (st *c17State) modelCount() int {
	n := len(st.m.Services)
	for _, l := range st.m.Groups {
		n += len(l)
	}
	return n
}

func (st *c17State) queries() []Finding {
	var fs []Finding
	bad := func(q, d string) {
		fs = append(fs, Finding{feat("clause", "query-mismatch", "query", q), q + ": " + d})
	}
	for _, t := range c17Types {
		_, want := st.m.Services[Ident{T: t}]
		if got := st.coll.Contains(kit.TypeOf(t)); got != want {
			bad("Contains", fmt.Sprintf("%s got %v want %v", t, got, want))
		}
		for _, k := range []string{"k", "x"} {
			_, want := st.m.Services[Ident{T: t, Key: k}]
			if got := st.coll.ContainsKeyed(kit.TypeOf(t), k); got != want {
				bad("ContainsKeyed", fmt.Sprintf("%s@%s got %v want %v", t, k, got, want))
			}
		}
	}
	if got, want := st.coll.Count(), st.modelCount(); got != want {
		bad("Count", fmt.Sprintf("got %d want %d", got, want))
	}
	sl := st.coll.ToSlice()
	if len(sl) != st.modelCount() {
		bad("ToSlice", fmt.Sprintf("len %d want %d", len(sl), st.modelCount()))
	} else {
		// every descriptor of ToSlice is a registered identity
		for _, d := range sl {
			if d == nil {
				bad("ToSlice", "nil descriptor")
				continue
			}
			tn := ""
			for _, t := range append([]string{"void"}, c17Types...) {
				if kit.TypeOf(t) == d.Type {
					tn = t
				}
			}
			id := Ident{T: tn}
			if d.Group != "" {
				if len(st.m.Groups[Ident{T: tn, Group: d.Group}]) == 0 {
					bad("ToSlice", fmt.Sprintf("descriptor %s[%s] is not a registered group member", tn, d.Group))
				}
				continue
			}
			if k, ok := d.Key.(string); ok {
				id.Key = k
			}
			if _, ok := st.m.Services[id]; !ok {
				bad("ToSlice", fmt.Sprintf("descriptor %s is not a registered identity", id))
			}
		}
	}
	return fs
}

type c17Case struct {
	Hist []cop `json:"history"`
	Post *cop  `json:"post,omitempty"`
}

// buildProbe builds the collection, probes the universe, optionally mutates the
// collection afterwards and probes the SAME provider again.
func (st *c17State) buildProbe(post *cop) []Finding {
	var fs []Finding
	before := collDump(st.coll)
	e := &Env{W: st.w, Scopes: map[string]*scopeRec{}, curScope: map[int]string{}, CallScope: map[*kit.Call]string{}}
	ncalls := len(st.w.Calls)
	p, did := kit.Try(func() { e.Prov, e.BuildErr = st.coll.Build() })
	if did {
		return []Finding{{feat("clause", "panic", "op", "build"), fmt.Sprintf("Build panicked: %v", p)}}
	}
	if after := collDump(st.coll); after != before {
		fs = append(fs, Finding{feat("clause", "build-mutated-collection"), fmt.Sprintf("Build changed the collection:\n  before %s\n  after  %s", before, after)})
	}
	verdict := st.m.Verdict()
	if e.BuildErr != nil {
		if verdict == "ok" {
			fs = append(fs, Finding{feat("clause", "valid-set-rejected", "class", kit.ClassOf(e.BuildErr)), "Build failed: " + firstLine(e.BuildErr.Error())})
		}
		return fs
	}
	// constructors of registrations that are not part of the registry must not have run
	registered := map[int]bool{}
	for _, id := range st.m.Registered() {
		registered[id] = true
	}
	for _, c := range st.w.Calls[ncalls:] {
		if !registered[c.Reg] {
			r := st.m.regs[c.Reg]
			fs = append(fs, Finding{feat("clause", "removed-ctor-ran", "form", regForm(r)),
				fmt.Sprintf("constructor of %s ran at Build although the registration was removed / rejected", r)})
		}
	}
	probe := func() string {
		n0 := len(e.Results)
		probeUniverse(e, "", c17Types, []string{"", "k"}, []string{"g"})
		var b strings.Builder
		for _, r := range e.Results[n0:] {
			lbl := r.Label
			if in := kit.InstOf(r.Val); in != nil {
				if rr := st.m.regs[in.Reg]; rr != nil && rr.Life == "transient" {
					lbl = fmt.Sprintf("r%d#*.%d", in.Reg, in.Out)
				}
			}
			fmt.Fprintf(&b, "%s=%s;", r.Op, lbl)
		}
		return b.String()
	}
	first := probe()
	pm := *st.m
	fs = append(fs, e.ProbeOracle(&pm)...)
	if post != nil {
		// mutate the collection after Build; the provider must not notice
		snapshot := cloneModel(st.m)
		st.apply(*post)
		second := probe()
		if second != first {
			fs = append(fs, Finding{feat("clause", "built-provider-affected", "by", post.Kind),
				fmt.Sprintf("after %s on the collection the earlier provider answers differently:\n  before %s\n  after  %s", post.Name, first, second)})
		}
		st.m = snapshot
	}
	e.Do(Op{Kind: "close", Scope: ""})
	return fs
}

func cloneModel(m *Model) *Model {
	c := &Model{Spec: m.Spec, Services: map[Ident]RegOut{}, Groups: map[Ident][]RegOut{}, regs: m.regs, AddErr: append([]string{}, m.AddErr...)}
	for k, v := range m.Services {
		c.Services[k] = v
	}
	for k, v := range m.Groups {
		c.Groups[k] = append([]RegOut{}, v...)
	}
	return c
}

func c17RunHistory(h []cop, post *cop, withBuild bool) []Finding {
	st := newC17State()
	var fs []Finding
	for i, o := range h {
		f := st.apply(o)
		if i == len(h)-1 {
			fs = append(fs, f...)
		}
	}
	if withBuild {
		fs = append(fs, st.buildProbe(post)...)
	}
	return fs
}

// c17Churn is a reduced alphabet searched deeper: plain / keyed / grouped registrations of one type
// interleaved with removals (group members, whose internal keys are positions, around removals).
var c17Churn = c17Idx("P0", "P0[g]", "P0@k", "P1", "Remove(P0)", "Remove(P1)", "RemoveKeyed(P0,k)")

// c17Inits: initializer functions around removals.
var c17Inits = c17Idx("init@i1", "init@i2-singleton", "P0", "RemoveKeyed(struct{},i1)", "Remove(P0)")

// c17Vals: instance registrations of plain (non-pointer) values around rejections and removals.
var c17Vals = c17Idx("inst-V0", "inst-V0@k", "bad-inst-V0-name+group", "inst-V0[g]", "Remove(V0)", "RemoveKeyed(V0,k)")

// c17Idx maps operation names to their positions in the alphabet.
func c17Idx(names ...string) []int {
	var out []int
	for _, n := range names {
		found := false
		for i, o := range c17AllOps() {
			if o.Name == n {
				out = append(out, i)
				found = true
			}
		}
		if !found {
			panic("c17: unknown operation " + n)
		}
	}
	return out
}

func c17Search(r *mc.Report, depth int, first int, subset ...int) {
	alpha := c17Alphabet()
	posts := c17Idx("P0", "P1", "D0-as-IA", "Remove(P0)", "Remove(P1)", "P0[g]")
	if len(subset) > 0 {
		full := c17AllOps()
		alpha = nil
		for _, i := range subset {
			alpha = append(alpha, full[i])
		}
		posts = []int{1}
	}
	if r.Only != nil {
		var c c17Case
		if json.Unmarshal(r.Only, &c) != nil || len(c.Hist) == 0 || c.Hist[0].Name != alpha[first].Name {
			return
		}
		var fs []Finding
		seqOnce(func() { fs = c17RunHistory(c.Hist, c.Post, true) })
		r.Executions++
		for _, f := range fs {
			r.Violate(f.F, f.Detail, c)
		}
		return
	}
	var rec func(h []cop)
	rec = func(h []cop) {
		names := make([]string, len(h))
		for i, o := range h {
			names[i] = o.Name
		}
		run := func(post *cop) {
			var fs []Finding
			s := seqOnce(func() { fs = c17RunHistory(h, post, true) })
			r.Executions++
			r.Validated++
			r.Transitions += int64(len(h) + 1)
			fs = append(fs, genericFindings(nil, s)...)
			for _, f := range fs {
				pn := ""
				if post != nil {
					pn = " then (after Build) " + post.Name
				}
				r.Violate(f.F, f.Detail+"\n  history: "+strings.Join(names, " ; ")+pn, c17Case{Hist: h, Post: post})
			}
		}
		run(nil)
		r.States++
		if len(h) <= 2 || depth <= 3 {
			for _, pi := range posts {
				p := alpha[pi]
				run(&p)
			}
		}
		if len(r.Samples) < 2 && len(h) == depth {
			r.Sample(map[string]any{"history": names})
		}
		if len(h) >= depth {
			return
		}
		for _, o := range alpha {
			rec(append(append([]cop{}, h...), o))
		}
	}
	rec([]cop{alpha[first]})
	r.Outcome(fmt.Sprintf("first=%s depth=%d", alpha[first].Name, depth))
}

var _ = reflect.TypeOf

func init() {
	mc.Register(&mc.Check{
		Prop:   "C17",
		Rule:   "every sequence to depth 3 (quick) / 4 (thorough) over a 25-operation alphabet {Add{Singleton,Scoped,Transient} of 19 forms (incl. registrations rejected for a reserved type found at a later output of a grouped batch) (incl. registrations that collide with themselves) over a 6-type pool (plain, keyed, grouped, two-return colliding / not colliding, result objects colliding at their second field, aliases, instance values, invalid option combinations), Remove x3, RemoveKeyed x2, AddModules}; after every step Contains / ContainsKeyed / Count / ToSlice are compared with the reference registry and a rejected call must leave the deep dump of the collection unchanged; in every state the collection is Built (Build must not change the dump), no constructor of a removed / rejected registration may have run, the whole identity universe is probed against the model, then one of 6 further mutations is applied to the collection and the SAME provider must answer identically. plus every sequence to depth 5 (6) over the reduced alphabet {Add plain / grouped / keyed P0, Add P1, Remove(P0), Remove(P1), RemoveKeyed(P0,k)} (group members registered around removals), and over {instance registration of a non-pointer value plain / keyed / grouped / rejected, Remove, RemoveKeyed} to depth 4 (5). distinct = distinct first operations x depth (states counted separately).",
		Assume: []string{"Count/ToSlice count one entry per registered identity (a two-return constructor contributes two)", "the analyzer cache and the mutex are excluded from the dump (not observable)"},
		Jobs: func(tier string) []mc.Job {
			depth := 3
			if tier == "thorough" {
				depth = 4
			}
			var jobs []mc.Job
			for i := range c17Alphabet() {
				i := i
				jobs = append(jobs, mc.Job{Name: fmt.Sprintf("c17/first-%d", i), Run: func(r *mc.Report) { c17Search(r, depth, i) }})
			}
			for i := range c17Inits {
				i := i
				jobs = append(jobs, mc.Job{Name: fmt.Sprintf("c17/inits-first-%d", i), Weight: 2, Run: func(r *mc.Report) { c17Search(r, depth+1, i, c17Inits...) }})
			}
			for i := range c17Vals {
				i := i
				jobs = append(jobs, mc.Job{Name: fmt.Sprintf("c17/values-first-%d", i), Weight: 2, Run: func(r *mc.Report) { c17Search(r, depth+1, i, c17Vals...) }})
			}
			for i := range c17Churn {
				i := i
				jobs = append(jobs, mc.Job{Name: fmt.Sprintf("c17/churn-first-%d", i), Weight: 3, Run: func(r *mc.Report) { c17Search(r, depth+2, i, c17Churn...) }})
			}
			return jobs
		},
	})
}
