package props

import (
	"context"
	"encoding/json"
	"fmt"
	"strings"

	"github.com/junioryono/godi/v4"
	"github.com/junioryono/godi/v4/internal/vsched"
	"github.com/junioryono/godi/v4/verifmc/kit"
	"github.com/junioryono/godi/v4/verifmc/mc"
)

// C18 — built-in injectables and context linkage are scope-correct.

func c18Spec(shape string) kit.Spec {
	s := c18SpecWarm(shape)
	var keep []kit.Reg
	for _, r := range s.Regs {
		if r.ID < 9 || r.ID > 12 { // (the concurrent scenarios do without the warm-up singleton and its extra watcher thread)
			keep = append(keep, r)
		}
	}
	s.Regs = keep
	return s
}

func c18SpecWarm(shape string) kit.Spec {
	in := shape == "in"
	return kit.Spec{Regs: []kit.Reg{
		{ID: 0, Life: "singleton", In: in, Outs: []kit.Out{{T: "P0"}}, Deps: []kit.Dep{{T: "ctx"}, {T: "scope"}, {T: "provider"}}},
		{ID: 1, Life: "scoped", In: in, InPtr: in, Outs: []kit.Out{{T: "P1"}}, Deps: []kit.Dep{{T: "provider"}, {T: "ctx"}, {T: "scope"}}},
		{ID: 2, Life: "transient", In: in, Outs: []kit.Out{{T: "P2"}}, Deps: []kit.Dep{{T: "scope"}, {T: "ctx"}, {T: "P0"}}},
		{ID: 3, Life: "scoped", Outs: []kit.Out{{T: "P3"}}, Deps: []kit.Dep{{T: "P2"}, {T: "P1"}, {T: "P0"}, {T: "scope"}}},
		{ID: 4, Life: "scoped", Kind: "void", In: in, Deps: []kit.Dep{{T: "scope"}, {T: "ctx"}, {T: "provider"}}},
		{ID: 5, Life: "transient", Outs: []kit.Out{{T: "P4"}}, Group: "g", Deps: []kit.Dep{{T: "scope"}}},
		// a dependency whose constructor resolves a parameter-object service through the injected
		// Provider (root scope) while ITS consumer's parameter object is being filled
		{ID: 6, Life: "transient", Outs: []kit.Out{{T: "P5"}}, Deps: []kit.Dep{{T: "provider"}}, Nested: []kit.Dep{{T: "D0"}}},
		{ID: 7, Life: "transient", In: true, Outs: []kit.Out{{T: "D0"}}, Deps: []kit.Dep{{T: "scope"}, {T: "ctx"}}},
		{ID: 8, Life: "scoped", In: true, Outs: []kit.Out{{T: "D1"}}, Deps: []kit.Dep{{T: "P5"}, {T: "scope"}, {T: "ctx"}, {T: "provider"}}},
		// a singleton that, DURING BUILD, warms up through a scope it creates from its injected Provider and asks it
		// for another singleton that is built later (two dependency levels deeper): whatever that request
		// returns, the later singleton is constructed on the root scope like every singleton
		{ID: 9, Life: "singleton", Outs: []kit.Out{{T: "D5"}}, Deps: []kit.Dep{{T: "provider"}}, Nested: []kit.Dep{{T: "D2"}}, NestedInChild: true},
		{ID: 10, Life: "singleton", In: in, Outs: []kit.Out{{T: "D2"}}, Deps: []kit.Dep{{T: "scope"}, {T: "ctx"}, {T: "D3"}}},
		{ID: 11, Life: "singleton", Outs: []kit.Out{{T: "D3"}}, Deps: []kit.Dep{{T: "D4"}}},
		{ID: 12, Life: "singleton", Outs: []kit.Out{{T: "D4"}}},
		// the built-ins as OPTIONAL parameter-object fields (they are never "registered", yet always available)
		{ID: 13, Life: "scoped", In: true, Outs: []kit.Out{{T: "P0"}}, Name: "opt", Deps: []kit.Dep{{T: "scope", Opt: true}, {T: "ctx", Opt: true}, {T: "provider", Opt: true}, {T: "P5", Key: "absent", Opt: true}}},
		{ID: 14, Life: "transient", In: true, InPtr: true, Outs: []kit.Out{{T: "P1"}}, Name: "opt", Deps: []kit.Dep{{T: "provider", Opt: true}, {T: "scope", Opt: true}, {T: "ctx", Opt: true}}},
		{ID: 15, Life: "singleton", In: true, Outs: []kit.Out{{T: "P2"}}, Name: "opt", Deps: []kit.Dep{{T: "ctx", Opt: true}, {T: "scope", Opt: true}}},
	}}
}

type c18Case struct {
	Shape   string   `json:"shape"`
	Ctx     []string `json:"ctx"`               // context kind of s1, s2, s3: cancel | nil | "" (plain) | pcancel (derived from the parent scope's Context()) | from-s1 (derived from s1's Context())
	Parents []int    `json:"parents,omitempty"` // parent of s1, s2, s3: 0 = provider, i = s_i (default: the chain 0,1,2)
	Order   int      `json:"order"`
}

var c18Names = []string{"s1", "s2", "s3"}

func (c c18Case) parentName(i int) string {
	p := i // chain
	if len(c.Parents) == 3 {
		p = c.Parents[i]
	}
	if p == 0 {
		return ""
	}
	return c18Names[p-1]
}

// c18Builtins checks every direct request of a built-in and every built-in a
// constructor received against the scope the resolution was issued on.
func c18Builtins(e *Env) []Finding {
	var out []Finding
	bad := func(clause, what, d string) { out = append(out, Finding{feat("clause", clause, "what", what), d}) }
	if e == nil || e.Prov == nil {
		return nil
	}
	rootScopeAny, rerr := e.Prov.Get(kit.TypeOf("scope"))
	if rerr != nil {
		if kit.ClassOf(rerr) == "provider-disposed" {
			return nil
		}
		bad("builtin-unresolvable", "scope", fmt.Sprintf("provider.Get(Scope): %v", rerr))
		return out
	}
	rootScope, _ := rootScopeAny.(godi.Scope)
	scopeOf := func(name string) godi.Scope {
		if name == "" || name == "#build" {
			return rootScope
		}
		if sr := e.Scopes[name]; sr != nil {
			return sr.S
		}
		return nil
	}
	// 1. direct requests
	for _, r := range e.Results {
		if r.Op.Kind != "get" || r.Skipped {
			continue
		}
		want := scopeOf(r.Op.Scope)
		switch r.Op.T {
		case "scope":
			if r.Err != nil || r.Val != any(want) {
				bad("direct-builtin-wrong", "scope", fmt.Sprintf("%s returned %v (%v), want that very scope", r.Op, r.Val, r.Err))
			}
		case "provider":
			if r.Err != nil || r.Val != any(e.Prov) {
				bad("direct-builtin-wrong", "provider", fmt.Sprintf("%s returned %v (%v), want the root provider", r.Op, r.Val, r.Err))
			}
		case "ctx":
			if r.Err != nil || want == nil || r.Val != any(want.Context()) {
				bad("direct-builtin-wrong", "ctx", fmt.Sprintf("%s returned %v (%v), want the scope's own context", r.Op, r.Val, r.Err))
			}
		default:
			if r.Err != nil {
				bad("resolution-failed", r.Op.T, fmt.Sprintf("%s failed: %v", r.Op, r.Err))
			}
		}
	}
	// 2. injected built-ins
	for _, cl := range e.W.Calls {
		reg := e.reg(cl.Reg)
		sn := e.ScopeOfCall(cl)
		if cl.Via == "child" && reg.Life != "singleton" {
			continue // made for a scope a constructor created and closed itself: the harness holds no handle on it
		}
		want := scopeOf(sn)
		if reg.Life == "singleton" || cl.Via == "provider" {
			want = rootScope // resolved at Build / through the provider itself
		}
		for _, a := range cl.Args {
			switch a.Kind {
			case "scope":
				if a.Ref != any(want) {
					got := "?"
					if s, ok := a.Ref.(interface{ ID() string }); ok {
						got = s.ID()
					}
					bad("injected-builtin-wrong", "scope", fmt.Sprintf("%s constructed on behalf of scope %q received Scope %s, want the scope the resolution was issued on", reg, sn, got))
				}
				if sc, ok := a.Ref.(godi.Scope); ok && sc.Provider() != e.Prov {
					bad("injected-builtin-wrong", "scope.Provider", fmt.Sprintf("%s: the injected Scope's Provider() is not the root provider", reg))
				}
			case "provider":
				if a.Ref != any(e.Prov) {
					bad("injected-builtin-wrong", "provider", fmt.Sprintf("%s received a Provider that is not the root provider", reg))
				}
			case "ctx":
				if want == nil || a.Ref != any(want.Context()) {
					bad("injected-builtin-wrong", "ctx", fmt.Sprintf("%s constructed on behalf of scope %q received a context that is not that scope's Context()", reg, sn))
				}
				if cx, ok := a.Ref.(context.Context); ok && want != nil {
					if s, err := godi.FromContext(cx); err != nil || s != want {
						bad("injected-builtin-wrong", "ctx.FromContext", fmt.Sprintf("%s constructed on behalf of scope %q: FromContext(injected context) is not that scope", reg, sn))
					}
				}
			case "nil":
				if a.Dep.T == "ctx" || a.Dep.T == "scope" || a.Dep.T == "provider" {
					bad("injected-builtin-wrong", a.Dep.T, fmt.Sprintf("%s received nil for built-in %s", reg, a.Dep.T))
				}
			}
		}
	}
	return out
}

var c18Gets = []Op{{Kind: "get", T: "P0", Key: "opt"}, {Kind: "get", T: "P1", Key: "opt"}, {Kind: "get", T: "P2", Key: "opt"}, {Kind: "get", T: "P3"}, {Kind: "get", T: "P2"}, {Kind: "get", T: "P1"}, {Kind: "get", T: "D1"}, {Kind: "group", T: "P4", Group: "g"},
	{Kind: "get", T: "ctx"}, {Kind: "get", T: "scope"}, {Kind: "get", T: "provider"}}

func c18Run(c c18Case) (*Env, []Finding) {
	spec := c18SpecWarm(c.Shape)
	e := NewEnv(&spec)
	e.Build()
	var out []Finding
	if e.Prov == nil {
		return e, []Finding{{feat("clause", "build-failed"), fmt.Sprint(e.BuildErr)}}
	}
	bad := func(clause, what, d string) { out = append(out, Finding{feat("clause", clause, "what", what), d}) }
	for i, n := range c18Names {
		e.Do(Op{Kind: "scope", Scope: c.parentName(i), Bind: n, Ctx: c.Ctx[i]})
	}
	var targets []string
	switch c.Order {
	case 1:
		targets = []string{"s3", "s1", "", "s2"}
	case 2:
		targets = []string{"s2", "s3", "s2", "", "s1", "s3"} // second visits hit the caches
	default:
		targets = []string{"", "s1", "s2", "s3"}
	}
	for _, t := range targets {
		for _, p := range c18Gets {
			p.Scope = t
			e.Do(p)
		}
	}
	out = append(out, c18Builtins(e)...)
	// 3. context linkage
	// ctxParent: the scope whose context a scope's context descends from ("" = none / the caller's own root context)
	ctxParent := map[string]string{}
	expectVal := map[string]string{}
	for i, n := range c18Names {
		switch c.Ctx[i] {
		case "nil":
			ctxParent[n] = c.parentName(i)
			expectVal[n] = expectVal[c.parentName(i)] // provider.CreateScope(nil): background, no value
		case "pcancel":
			ctxParent[n] = c.parentName(i)
			expectVal[n] = n
		case "from-s1":
			ctxParent[n] = "s1"
			expectVal[n] = n
		default:
			expectVal[n] = n
		}
	}
	for i, n := range c18Names {
		sr := e.Scopes[n]
		if sr == nil || sr.S == nil {
			bad("scope-creation-failed", n, fmt.Sprintf("scope %s was not created", n))
			continue
		}
		ctx := sr.S.Context()
		got, _ := ctx.Value(ctxKey{}).(string)
		if got != expectVal[n] {
			bad("context-value-lost", c.Ctx[i], fmt.Sprintf("scope %s: context value %q, want %q (the context passed to CreateScope, or the parent scope's when nil)", n, got, expectVal[n]))
		}
		if s, err := godi.FromContext(ctx); err != nil || s != sr.S {
			bad("from-context-wrong", "direct", fmt.Sprintf("FromContext(%s.Context()) = %v, %v", n, s, err))
		}
		derived, cancel := context.WithCancel(context.WithValue(ctx, struct{ k int }{1}, "x"))
		if s, err := godi.FromContext(derived); err != nil || s != sr.S {
			bad("from-context-wrong", "derived", fmt.Sprintf("FromContext(derived from %s) = %v, %v", n, s, err))
		}
		cancel()
		if ctx.Err() != nil {
			bad("context-cancelled-early", n, fmt.Sprintf("scope %s: context already cancelled while the scope is open", n))
		}
		if sr.S.Provider() != e.Prov {
			bad("scope-provider-wrong", n, fmt.Sprintf("scope %s: Provider() is not the root provider", n))
		}
	}
	// cancellation propagates from the caller's context (and from the scope a context was derived from)
	cancelRoot := ""
	for i, n := range c18Names {
		if (c.Ctx[i] == "cancel" || c.Ctx[i] == "pcancel" || c.Ctx[i] == "from-s1") && cancelRoot == "" && e.Scopes[n] != nil && e.Scopes[n].Cancel != nil {
			cancelRoot = n
		}
	}
	if cancelRoot != "" {
		e.Do(Op{Kind: "cancel", Scope: cancelRoot})
		affected := map[string]bool{cancelRoot: true}
		for k := 0; k < 3; k++ {
			for _, n := range c18Names {
				if p, ok := ctxParent[n]; ok && p != "" && affected[p] {
					affected[n] = true
				}
			}
		}
		for i, n := range c18Names {
			sr := e.Scopes[n]
			if sr == nil || sr.S == nil {
				continue
			}
			// context cancellation is synchronous: no waiting involved
			if affected[n] && sr.S.Context().Err() == nil {
				bad("cancellation-not-observed", c.Ctx[i], fmt.Sprintf("cancelling the caller context of %s is not observed by %s.Context().Done()", cancelRoot, n))
			}
			if !affected[n] && sr.S.Context().Err() != nil {
				bad("cancellation-leaked", c.Ctx[i], fmt.Sprintf("cancelling the caller context of %s cancelled the context of %s, which does not descend from it", cancelRoot, n))
			}
		}
		e.Do(Op{Kind: "settle"})
		// after the watchers ran: scopes that are neither context- nor tree-descendants of the cancelled one are still usable
		closedTree := map[string]bool{}
		for n := range affected {
			closedTree[n] = true
		}
		for k := 0; k < 3; k++ {
			for i, n := range c18Names {
				if closedTree[c.parentName(i)] && c.parentName(i) != "" {
					closedTree[n] = true
				}
			}
		}
		n0 := len(e.Results)
		for _, n := range c18Names {
			if !closedTree[n] {
				for _, p := range c18Gets {
					p.Scope = n
					e.Do(p)
				}
			}
		}
		for _, r := range e.Results[n0:] {
			if r.Err != nil {
				bad("unrelated-scope-unusable", r.Op.Scope, fmt.Sprintf("after cancelling the caller context of %s, %s on the unrelated scope failed: %v", cancelRoot, r.Op, r.Err))
			}
		}
		out = append(out, c18Builtins(e)...)
	}
	e.Do(Op{Kind: "close", Scope: ""})
	e.Do(Op{Kind: "settle"})
	return e, out
}

func idxOf(n string) int { return int(n[1] - '1') }

// ---- reserved types cannot be registered

type fakeCtx struct{ context.Context }
type fakeScope struct{ godi.Scope }
type fakeProvider struct{ godi.Provider }

func (*fakeProvider) String() string { return "fakeProvider" }

type outWithCtx struct {
	godi.Out
	A *kit.P0
	C context.Context
}
type outWithScope struct {
	godi.Out
	S godi.Scope `name:"x"`
}
type outWithCtxGroup struct {
	godi.Out
	A *kit.P0
	C context.Context `group:"g"`
}
type outWithProviderGroup struct {
	godi.Out
	P godi.Provider `group:"g"`
	A *kit.P1
}

func c18Reserved() []Finding {
	var out []Finding
	type attempt struct {
		name string
		do   func(c godi.Collection) error
	}
	bg := context.Background()
	attempts := []attempt{
		{"ctor returning context.Context", func(c godi.Collection) error { return c.AddSingleton(func() context.Context { return bg }) }},
		{"ctor returning Scope", func(c godi.Collection) error { return c.AddScoped(func() godi.Scope { return nil }) }},
		{"ctor returning Provider", func(c godi.Collection) error { return c.AddTransient(func() godi.Provider { return nil }) }},
		{"ctor returning (context.Context, error)", func(c godi.Collection) error {
			return c.AddSingleton(func() (context.Context, error) { return bg, nil })
		}},
		{"named context.Context", func(c godi.Collection) error {
			return c.AddSingleton(func() context.Context { return bg }, godi.Name("n"))
		}},
		{"grouped Scope", func(c godi.Collection) error { return c.AddScoped(func() godi.Scope { return nil }, godi.Group("g")) }},
		{"As[context.Context]", func(c godi.Collection) error {
			return c.AddSingleton(func() *fakeCtx { return &fakeCtx{bg} }, godi.As[context.Context]())
		}},
		{"As[Scope]", func(c godi.Collection) error {
			return c.AddScoped(func() *fakeScope { return &fakeScope{} }, godi.As[godi.Scope]())
		}},
		{"As[Provider] named", func(c godi.Collection) error {
			return c.AddSingleton(func() *fakeProvider { return &fakeProvider{} }, godi.As[godi.Provider](), godi.Name("p"))
		}},
		{"second return context.Context", func(c godi.Collection) error {
			return c.AddSingleton(func() (*kit.P0, context.Context) { return &kit.P0{}, bg })
		}},
		{"first of two returns Provider", func(c godi.Collection) error {
			return c.AddSingleton(func() (godi.Provider, *kit.P1) { return nil, &kit.P1{} })
		}},
		{"result object field context.Context", func(c godi.Collection) error {
			return c.AddSingleton(func() outWithCtx { return outWithCtx{A: &kit.P0{}, C: bg} })
		}},
		{"result object named field Scope", func(c godi.Collection) error {
			return c.AddScoped(func() outWithScope { return outWithScope{} })
		}},
		// the grouped variants of every batch form (a group member has no (type, key) identity of its own)
		{"As[context.Context] in a group", func(c godi.Collection) error {
			return c.AddSingleton(func() *fakeCtx { return &fakeCtx{bg} }, godi.As[context.Context](), godi.Group("g"))
		}},
		{"As[Scope] in a group", func(c godi.Collection) error {
			return c.AddScoped(func() *fakeScope { return &fakeScope{} }, godi.As[godi.Scope](), godi.Group("g"))
		}},
		{"As[IA]+As[Provider] in a group", func(c godi.Collection) error {
			return c.AddTransient(func() *fakeProvider { return &fakeProvider{} }, godi.As[fmt.Stringer](), godi.As[godi.Provider](), godi.Group("g"))
		}},
		{"result object group field context.Context", func(c godi.Collection) error {
			return c.AddSingleton(func() outWithCtxGroup { return outWithCtxGroup{A: &kit.P0{}, C: bg} })
		}},
		{"result object group field Provider first", func(c godi.Collection) error {
			return c.AddTransient(func() outWithProviderGroup { return outWithProviderGroup{A: &kit.P1{}} })
		}},
		{"second return Scope in a group", func(c godi.Collection) error {
			return c.AddScoped(func() (*kit.P0, godi.Scope) { return &kit.P0{}, nil }, godi.Group("g"))
		}},
		{"first return Provider in a group", func(c godi.Collection) error {
			return c.AddTransient(func() (godi.Provider, *kit.P1) { return nil, &kit.P1{} }, godi.Group("g"))
		}},
		{"module entry returning context.Context", func(c godi.Collection) error {
			return c.AddModules(godi.NewModule("m", godi.AddSingleton(func() context.Context { return bg })))
		}},
	}
	for _, a := range attempts {
		c := godi.NewCollection()
		c.AddSingleton(func() *kit.P5 { return &kit.P5{} })
		before := collDump(c)
		var err error
		p, did := kit.Try(func() { err = a.do(c) })
		if did {
			out = append(out, Finding{feat("clause", "panic", "op", "add"), fmt.Sprintf("%s panicked: %v", a.name, p)})
			continue
		}
		if err == nil {
			out = append(out, Finding{feat("clause", "reserved-type-registered", "route", a.name), fmt.Sprintf("registration attempt %q succeeded", a.name)})
		}
		if after := collDump(c); after != before {
			out = append(out, Finding{feat("clause", "reserved-attempt-mutated", "route", a.name), fmt.Sprintf("registration attempt %q changed the collection", a.name)})
		}
		for _, t := range []string{"ctx", "scope", "provider"} {
			if c.Contains(kit.TypeOf(t)) || c.ContainsKeyed(kit.TypeOf(t), "n") || c.ContainsKeyed(kit.TypeOf(t), "p") || c.ContainsKeyed(kit.TypeOf(t), "x") {
				out = append(out, Finding{feat("clause", "reserved-type-contained", "route", a.name), fmt.Sprintf("after %q the collection contains reserved type %s", a.name, t)})
			}
		}
	}
	return out
}

func init() {
	mc.Register(&mc.Check{
		Prop:        "C18",
		Rule:        "scope trees of three scopes under the provider in all 6 parent shapes (chain, star, forks) x per-scope context kind {cancellable with a value, nil, plain with a value, derived from the parent scope's Context(), derived from ANOTHER scope's (s1) Context()} x {positional, In-struct (value and pointer)} consumers x 3 resolution orders (one revisits scopes so caches are hit); services of every lifetime (singleton, scoped, transient, scoped initializer, transient group member, nested transient-inside-scoped, a parameter-object consumer one of whose dependencies re-entrantly resolves another parameter-object service through the injected Provider, and a singleton that during Build requests a not-yet-built singleton through a scope it creates itself) take Context / Scope / Provider - as parameters, as In fields and as OPTIONAL In fields; every recorded constructor argument and every direct Get of the three built-ins is compared with the scope the resolution was issued on (singletons: the provider's root scope), its Context(), FromContext of the injected context, and the root provider; context values, FromContext on the scope context and on a derived context, Scope.Provider(), synchronous cancellation propagation along the context ancestry (and non-propagation to unrelated scopes, which must stay usable after the watchers ran) are checked per scope; concurrent part (8 scenarios quick / 16 thorough): two goroutines resolving built-in consumers in two different scopes (siblings, parent/child, provider/scope) and scope creation (scoped initializer taking the built-ins) against a resolution, every schedule within the preemption bound (2 quick / 3 thorough; one less for the deep consumer), same injected-built-in oracle plus race/panic/deadlock detection; 21 registration routes for the three reserved types (plain, keyed, grouped, alias, extra return, result-object field, module entry - and the grouped variant of every batch form) must fail and leave the collection unchanged. distinct = canonical observation strings.",
		Assume:      []string{"cancellation is observed synchronously (context.WithCancel semantics)"},
		MinOutcomes: 4,
		Jobs: func(tier string) []mc.Job {
			jobs := []mc.Job{
				{Name: "c18-trees", Run: func(r *mc.Report) {
					run := func(c c18Case) {
						var e *Env
						var fs []Finding
						s := seqOnce(func() { e, fs = c18Run(c) })
						r.Executions++
						r.Validated++
						r.States++
						r.Transitions += int64(len(e.Results))
						r.Outcome(fmt.Sprintf("%v/%v/%s/%d | calls=%d", c.Ctx, c.Parents, c.Shape, c.Order, len(e.W.Calls)))
						fs = append(fs, genericFindings(e, s)...)
						for _, f := range fs {
							r.Violate(f.F, f.Detail+fmt.Sprintf("\n  contexts %v, parents %v, shape %s, order %d", c.Ctx, c.Parents, c.Shape, c.Order), c)
						}
						if len(r.Samples) < 2 {
							r.Sample(map[string]any{"case": c, "observed": e.Summary()})
						}
					}
					if r.Only != nil {
						var c c18Case
						if json.Unmarshal(r.Only, &c) == nil && len(c.Ctx) == 3 {
							run(c)
						}
						return
					}
					kinds := []string{"cancel", "nil", "", "pcancel", "from-s1"}
					trees := [][]int{{0, 1, 2}, {0, 0, 0}, {0, 1, 1}, {0, 0, 1}, {0, 0, 2}, {0, 1, 0}}
					for _, tr := range trees {
						for _, a := range kinds[:3] { // s1 hangs off the provider: pcancel / from-s1 do not apply
							for _, b := range kinds {
								for _, d := range kinds {
									for _, sh := range []string{"positional", "in"} {
										for o := 0; o < 3; o++ {
											run(c18Case{Shape: sh, Ctx: []string{a, b, d}, Parents: tr, Order: o})
										}
									}
								}
							}
						}
					}
				}},
				{Name: "c18-reserved", Run: func(r *mc.Report) {
					var fs []Finding
					s := seqOnce(func() { fs = c18Reserved() })
					r.Executions += 21
					r.Validated += 21
					r.States += 21
					r.Transitions += 21
					r.Outcome("reserved-type registration attempts")
					fs = append(fs, genericFindings(nil, s)...)
					for _, f := range fs {
						r.Violate(f.F, f.Detail, map[string]string{"route": f.F["route"]})
					}
				}},
			}
			// concurrent resolutions in different scopes: every schedule within the preemption bound
			pre := 2
			if tier == "thorough" {
				pre = 3
			}
			quickSet := map[string]bool{"c18-conc/in-0-2": true, "c18-conc/in-1-2": true, "c18-conc/in-2-2": true, "c18-conc/in-0-0": true, "c18-conc/in-2-3": true,
				"c18-conc/in-1-1": true, "c18-conc/positional-0-2": true, "c18-conc/create-vs-get": true}
			for _, sc := range c18ConcScenarios() {
				sc := sc
				if tier != "thorough" && !quickSet[sc.Name] {
					continue
				}
				b := pre
				if strings.HasSuffix(sc.Name, "-1") {
					b-- // the deep consumer (P3: transient + two scoped dependencies, ~4x the scheduling points)
				}
				ns := 1
				if b >= 2 {
					ns = 4
				}
				for sh := 0; sh < ns; sh++ {
					sh := sh
					name := sc.Name
					if ns > 1 {
						name = fmt.Sprintf("%s#%d", sc.Name, sh)
					}
					jobs = append(jobs, mc.Job{Name: name, Weight: 50, Run: func(r *mc.Report) {
						exploreScenario(r, sc, mc.Bounds{Preempt: b, Shard: sh, NShards: ns}, func(e *Env, s *vsched.Sched) []Finding { return c18Builtins(e) })
					}})
				}
			}
			return jobs
		},
	})
}

// c18ConcScenarios: two goroutines resolve services that take the built-ins, each in its own
// scope (siblings, parent/child, provider/scope), so that any state shared between resolutions
// (builders, cached constructor info, argument buffers) would hand one of them the other's scope.
func c18ConcScenarios() []*Scenario {
	var out []*Scenario
	setup := []Op{{Kind: "scope", Bind: "s1", Ctx: "cancel"}, {Kind: "scope", Scope: "s1", Bind: "s2", Ctx: "nil"}, {Kind: "scope", Bind: "s3", Ctx: ""}}
	final := []Op{{Kind: "close", Scope: ""}, {Kind: "settle"}}
	pairs := [][2]string{{"s1", "s3"}, {"s1", "s2"}, {"", "s2"}}
	targets := [][]Op{
		{{Kind: "get", T: "D1"}},
		{{Kind: "get", T: "P3"}},
		{{Kind: "get", T: "P1"}, {Kind: "get", T: "ctx"}},
		{{Kind: "group", T: "P4", Group: "g"}, {Kind: "get", T: "P2"}},
	}
	for _, sh := range []string{"in", "positional"} {
		for pi, pr := range pairs {
			for ti, ops := range targets {
				if sh == "positional" && ti != 2 {
					continue
				}
				a := make([]Op, len(ops))
				b := make([]Op, len(ops))
				for i, o := range ops {
					a[i], b[i] = o, o
					a[i].Scope, b[i].Scope = pr[0], pr[1]
				}
				out = append(out, &Scenario{Name: fmt.Sprintf("c18-conc/%s-%d-%d", sh, pi, ti), Spec: c18Spec(sh), Setup: setup, Threads: [][]Op{a, b}, Final: final})
			}
		}
	}
	// scope creation (running the scoped initializer, which takes the built-ins) concurrent with a resolution elsewhere
	out = append(out, &Scenario{Name: "c18-conc/create-vs-get", Spec: c18Spec("in"), Setup: setup[:1],
		Threads: [][]Op{{{Kind: "scope", Scope: "s1", Bind: "s2", Ctx: "nil"}, {Kind: "get", Scope: "s2", T: "D1"}}, {{Kind: "get", Scope: "s1", T: "D1"}}}, Final: final})
	return out
}

var _ = vsched.Yield
