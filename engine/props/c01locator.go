package props

import (
	"fmt"

	"github.com/junioryono/godi/v4/internal/vsched"
	"github.com/junioryono/godi/v4/verifmc/kit"
	"github.com/junioryono/godi/v4/verifmc/mc"
)

// C01 - singletons looked up WHILE Build is running.
//
// A singleton constructor that receives the built-in Provider / Scope may use it
// as a service locator: look another singleton up itself, or hand the reference
// to a goroutine it starts (a warm-up worker) which looks it up whenever it gets
// to run - before the build loop reached that singleton, while the loop is inside
// its constructor, or after Build returned.  Whatever such a lookup answers (an
// error is allowed while the singleton does not exist yet), every singleton
// constructor runs exactly once and a lookup that yields an instance yields THE
// instance.
//
// Enumerated: three singletons P0 (the locator), P1, P2; every set of dependency
// edges among them (all 64, cyclic ones included - they simply do not build),
// injected reference {Provider, Scope}, looked-up targets {P1}, {P2}, {P1,P2},
// registration order (all 6; it breaks topological ties); synchronous lookups
// run once per configuration, asynchronous ones under every schedule of the
// build goroutine against the worker within the preemption bound.

type locCase struct {
	Edges int    `json:"edges"` // bit 2*i+j': reg i depends on the j'-th other singleton
	Ref   string `json:"ref"`
	Tgt   int    `json:"targets"` // 1: P1, 2: P2, 3: both
	Order [3]int `json:"order"`
	Async bool   `json:"async"`
}

func (c locCase) spec() kit.Spec {
	names := []string{"P0", "P1", "P2"}
	regs := make([]kit.Reg, 3)
	for i := 0; i < 3; i++ {
		regs[i] = kit.Reg{ID: i, Life: "singleton", Outs: []kit.Out{{T: names[i]}}}
		k := 0
		for j := 0; j < 3; j++ {
			if j == i {
				continue
			}
			if c.Edges&(1<<(2*i+k)) != 0 {
				regs[i].Deps = append(regs[i].Deps, kit.Dep{T: names[j]})
			}
			k++
		}
	}
	regs[0].Deps = append([]kit.Dep{{T: c.Ref}}, regs[0].Deps...)
	if c.Tgt&1 != 0 {
		regs[0].Nested = append(regs[0].Nested, kit.Dep{T: "P1"})
	}
	if c.Tgt&2 != 0 {
		regs[0].Nested = append(regs[0].Nested, kit.Dep{T: "P2"})
	}
	regs[0].NestedAsync = c.Async
	var s kit.Spec
	for _, i := range c.Order {
		s.Regs = append(s.Regs, regs[i])
	}
	return s
}

func (c locCase) scenario() *Scenario {
	var final []Op
	final = append(final, Op{Kind: "settle"}, Op{Kind: "scope", Bind: "s1"})
	for _, sc := range []string{"", "s1"} {
		for _, t := range []string{"P0", "P1", "P2"} {
			final = append(final, Op{Kind: "get", Scope: sc, T: t})
		}
	}
	final = append(final, Op{Kind: "close", Scope: ""}, Op{Kind: "settle"})
	return &Scenario{Name: fmt.Sprintf("C01-locator/e%d-%s-t%d-o%d%d%d-async=%v", c.Edges, c.Ref, c.Tgt, c.Order[0], c.Order[1], c.Order[2], c.Async),
		Spec: c.spec(), Final: final}
}

func locOracle(m *Model) oracleFn {
	return func(e *Env, s *vsched.Sched) []Finding {
		if e.Prov == nil {
			return nil // whether a (cyclic) set builds is C05's subject
		}
		return filterClauses("C01", lifeOracle(e, m))
	}
}

var locOrders = [][3]int{{0, 1, 2}, {0, 2, 1}, {1, 0, 2}, {1, 2, 0}, {2, 0, 1}, {2, 1, 0}}

func c01LocatorSeq(r *mc.Report) {
	run := func(c locCase) {
		sc := c.scenario()
		m := NewModel(&sc.Spec)
		var e *Env
		s := seqOnce(func() { sc.RunInto(&e) })
		r.Executions++
		r.States++
		r.Validated++
		r.Transitions += int64(len(e.Results))
		if e.Prov == nil {
			r.Outcome("locator: not buildable")
		} else {
			r.Outcome("locator | " + e.Summary())
		}
		for _, f := range append(genericFindings(e, s), locOracle(m)(e, s)...) {
			r.Violate(f.F, f.Detail+fmt.Sprintf("\n  %s\n  %s", sc.Name, e.Summary()), c)
		}
		if len(r.Samples) < 2 && e.Prov != nil {
			r.Sample(map[string]any{"case": c, "observed": e.Summary()})
		}
	}
	if r.Only != nil {
		var c locCase
		if jsonUnmarshal(r.Only, &c) == nil && c.Ref != "" {
			run(c)
		}
		return
	}
	for edges := 0; edges < 64; edges++ {
		for _, ref := range []string{"provider", "scope"} {
			for tgt := 1; tgt <= 3; tgt++ {
				for _, o := range locOrders {
					run(locCase{Edges: edges, Ref: ref, Tgt: tgt, Order: o})
				}
			}
		}
	}
}

// acyclic3 reports whether the edge set of a locCase is acyclic.
func acyclic3(edges int) bool {
	adj := [3][]int{}
	for i := 0; i < 3; i++ {
		k := 0
		for j := 0; j < 3; j++ {
			if j == i {
				continue
			}
			if edges&(1<<(2*i+k)) != 0 {
				adj[i] = append(adj[i], j)
			}
			k++
		}
	}
	col := [3]int{}
	var dfs func(n int) bool
	dfs = func(n int) bool {
		col[n] = 1
		for _, t := range adj[n] {
			if col[t] == 1 || (col[t] == 0 && !dfs(t)) {
				return false
			}
		}
		col[n] = 2
		return true
	}
	for n := 0; n < 3; n++ {
		if col[n] == 0 && !dfs(n) {
			return false
		}
	}
	return true
}

func c01LocatorJobs(tier string) []mc.Job {
	jobs := []mc.Job{{Name: "C01-locator-seq", Weight: 5, Run: c01LocatorSeq}, {Name: "C01-overridden-output", Run: c01Overridden}}
	pb := 2
	orders := [][3]int{{0, 1, 2}, {2, 1, 0}}
	if tier == "thorough" {
		pb = 3
		orders = locOrders
	}
	const nsh = 8
	for sh := 0; sh < nsh; sh++ {
		sh := sh
		jobs = append(jobs, mc.Job{Name: fmt.Sprintf("C01-locator-async#%d", sh), Weight: 40, Run: func(r *mc.Report) {
			if r.Only != nil {
				var c schedCase
				if jsonUnmarshal(r.Only, &c) == nil && c.Scenario != nil {
					exploreScenario(r, c.Scenario, c.Bounds, locOracle(NewModel(&c.Scenario.Spec)))
				}
				return
			}
			i := 0
			for edges := 0; edges < 64; edges++ {
				if !acyclic3(edges) {
					continue
				}
				for _, ref := range []string{"provider", "scope"} {
					for tgt := 1; tgt <= 3; tgt++ {
						for _, o := range orders {
							i++
							if i%nsh != sh {
								continue
							}
							sc := locCase{Edges: edges, Ref: ref, Tgt: tgt, Order: o, Async: true}.scenario()
							exploreScenario(r, sc, mc.Bounds{Preempt: pb}, locOracle(NewModel(&sc.Spec)))
						}
					}
				}
			}
		}})
	}
	return jobs
}

// C01 - "override one service": an output of a singleton multi-output registration is removed before
// Build and its identity registered again by another singleton constructor (with and without a
// dependency on the surviving output, which fixes the creation order either way round). Each of the
// two constructors runs exactly once and every identity resolves to its own registration's instance.
func c01Overridden(r *mc.Report) {
	type ovCase struct {
		Form   string `json:"form"`
		Dep    string `json:"new_depends_on"`    // "", "D0" (surviving sibling), "P0" (an unrelated singleton)
		OldDep bool   `json:"old_depends_on_p0"` // the multi-output constructor depends on P0
		Which  int    `json:"removed_output"`
	}
	run := func(c ovCase) {
		outs := []kit.Out{{T: "D0"}, {T: "D1"}}
		removed, kept := outs[c.Which].T, outs[1-c.Which].T
		r0 := kit.Reg{ID: 0, Life: "singleton", ResObj: c.Form == "resobj", Outs: outs}
		if c.OldDep {
			r0.Deps = []kit.Dep{{T: "P0"}}
		}
		r1 := kit.Reg{ID: 1, Life: "singleton", Outs: []kit.Out{{T: removed}}, RemoveFirst: []kit.Dep{{T: removed}}}
		switch c.Dep {
		case "D0":
			r1.Deps = []kit.Dep{{T: kept}}
		case "P0":
			r1.Deps = []kit.Dep{{T: "P0"}}
		}
		spec := kit.Spec{Regs: []kit.Reg{{ID: 2, Life: "singleton", Outs: []kit.Out{{T: "P0"}}}, r0, r1,
			{ID: 3, Life: "singleton", In: true, Outs: []kit.Out{{T: "P1"}}, Deps: []kit.Dep{{T: "D0"}, {T: "D1"}}},
			{ID: 4, Life: "scoped", Outs: []kit.Out{{T: "P2"}}, Deps: []kit.Dep{{T: removed}}}}}
		m := NewModel(&spec)
		var final []Op
		final = append(final, Op{Kind: "scope", Bind: "s1"})
		for _, sc := range []string{"", "s1"} {
			for _, t := range []string{"D0", "D1", "P1", "P2"} {
				final = append(final, Op{Kind: "get", Scope: sc, T: t})
			}
		}
		final = append(final, Op{Kind: "close", Scope: ""}, Op{Kind: "settle"})
		sc := &Scenario{Name: "C01-overridden-output", Spec: spec, Final: final}
		var e *Env
		s := seqOnce(func() { sc.RunInto(&e) })
		r.Executions++
		r.States++
		r.Validated++
		r.Transitions += int64(len(e.Results) + 1)
		r.Outcome(fmt.Sprintf("overridden %s removed=%s new-dep=%s old-dep=%v | %s", c.Form, removed, c.Dep, c.OldDep, e.Summary()))
		fs := append(genericFindings(e, s), filterClauses("C01", lifeOracle(e, m))...)
		for _, f := range fs {
			r.Violate(f.F, f.Detail+fmt.Sprintf("\n  %s singleton (D0, D1); %s removed and registered again by another singleton (depends on %q)\n  %s", c.Form, removed, c.Dep, e.Summary()), c)
		}
		if len(r.Samples) < 2 {
			r.Sample(map[string]any{"case": c, "observed": e.Summary()})
		}
	}
	if r.Only != nil {
		var c ovCase
		if jsonUnmarshal(r.Only, &c) == nil && c.Form != "" {
			run(c)
		}
		return
	}
	for _, form := range []string{"resobj", "multi"} {
		for _, dep := range []string{"", "D0", "P0"} {
			for _, od := range []bool{false, true} {
				for which := 0; which < 2; which++ {
					run(ovCase{Form: form, Dep: dep, OldDep: od, Which: which})
				}
			}
		}
	}
}
