package props

import "github.com/junioryono/godi/v4/verifmc/kit"

// mixSpec is the standard small container used by the schedule scenarios:
//
//	r0 singleton  D0
//	r1 scoped     D1(P0-free)           - disposable scoped, depends on r0
//	r2 transient  D2(D0)
//	r3 scoped     D3 group g
//	r4 scoped     D4 group g (depends on D1)
//	r5 scoped     P5 keyed "k"
//	(r6 scoped void initializer taking D1 - optional)
func mixSpec(withInit bool) kit.Spec {
	s := kit.Spec{Regs: []kit.Reg{
		{ID: 0, Life: "singleton", Outs: []kit.Out{{T: "D0"}}},
		{ID: 1, Life: "scoped", Outs: []kit.Out{{T: "D1"}}, Deps: []kit.Dep{{T: "D0"}}},
		{ID: 2, Life: "transient", Outs: []kit.Out{{T: "D2"}}, Deps: []kit.Dep{{T: "D0"}}},
		{ID: 3, Life: "scoped", Outs: []kit.Out{{T: "D3"}}, Group: "g"},
		{ID: 4, Life: "scoped", Outs: []kit.Out{{T: "D3"}}, Group: "g", Deps: []kit.Dep{{T: "D1"}}},
		{ID: 5, Life: "scoped", Outs: []kit.Out{{T: "P5"}}, Name: "k"},
		{ID: 7, Life: "scoped", Outs: []kit.Out{{T: "P4"}}, Deps: []kit.Dep{{T: "D1"}, {T: "D2"}, {T: "D0"}}},
	}}
	if withInit {
		s.Regs = append(s.Regs, kit.Reg{ID: 6, Life: "scoped", Kind: "void", Deps: []kit.Dep{{T: "D1"}}})
	}
	return s
}

// scopedUser is a scoped service that consumes a transient (so that a
// transient is constructed as a dependency inside a scope).
func richSpec() kit.Spec {
	return kit.Spec{Regs: []kit.Reg{
		{ID: 0, Life: "singleton", Outs: []kit.Out{{T: "D0"}}},
		{ID: 1, Life: "transient", Outs: []kit.Out{{T: "D1"}}, Deps: []kit.Dep{{T: "D0"}}},
		{ID: 2, Life: "scoped", Outs: []kit.Out{{T: "D2"}}, Deps: []kit.Dep{{T: "D1"}, {T: "D0"}}},
		{ID: 3, Life: "scoped", Outs: []kit.Out{{T: "D3"}, {T: "D4"}}, Deps: []kit.Dep{{T: "D2"}}},
		{ID: 4, Life: "singleton", Outs: []kit.Out{{T: "P5"}}, Deps: []kit.Dep{{T: "D1"}}},
	}}
}
