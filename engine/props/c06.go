package props

import (
	"encoding/json"
	"fmt"

	"github.com/junioryono/godi/v4/internal/vsched"
	"github.com/junioryono/godi/v4/verifmc/kit"
	"github.com/junioryono/godi/v4/verifmc/mc"
)

// C06 — Build is deterministic, order-independent and creates dependencies first.

type c06Obs struct {
	Verdict string
	Graph   string
	Fs      []Finding
}

// c06Run builds one (config, registration order) and returns its observation:
// verdict class, canonical object graph, creation-order findings.
func c06Run(c cfgCase) (obs c06Obs, e *Env) {
	spec := c.spec()
	m := NewModel(&spec)
	e = NewEnv(&spec)
	e.Build()
	obs.Verdict = "ok"
	if e.BuildPanic != nil {
		obs.Verdict = "PANIC"
		obs.Fs = append(obs.Fs, Finding{feat("clause", "build-panic"), fmt.Sprint(e.BuildPanic)})
		return
	}
	if e.BuildErr != nil {
		obs.Verdict = kit.ClassOf(e.BuildErr)
		return
	}
	// dependencies first: every singleton finished before a singleton depending on it started
	edges := m.Edges()
	firstCall := map[int]*kit.Call{}
	for _, cl := range e.W.Calls {
		if _, ok := firstCall[cl.Reg]; !ok {
			firstCall[cl.Reg] = cl
		}
	}
	for a, l := range edges {
		ra := m.regs[a]
		if ra.Life != "singleton" {
			continue
		}
		for _, b := range l {
			rb := m.regs[b]
			if rb.Life != "singleton" || rb.Kind == "instance" {
				continue
			}
			ca, cb := firstCall[a], firstCall[b]
			if ca == nil || cb == nil {
				continue
			}
			if !(cb.End < ca.Start) {
				obs.Fs = append(obs.Fs, Finding{feat("clause", "dependent-created-before-dependency", "via", viaForm(ra, rb)),
					fmt.Sprintf("singleton %s started (stamp %d) before its dependency %s finished (stamp %d)", ra, ca.Start, rb, cb.End)})
			}
		}
	}
	n0 := len(e.Results)
	e.Do(Op{Kind: "scope", Bind: "s1"})
	c.probeAll(e, "s1")
	obs.Graph = objectGraph(e, n0)
	// rebuilding the very same collection gives the same verdict and an isomorphic object graph
	e2 := &Env{W: e.W, Coll: e.Coll, Scopes: map[string]*scopeRec{}, curScope: map[int]string{}, CallScope: map[*kit.Call]string{}}
	if p, did := kit.Try(func() { e2.Prov, e2.BuildErr = e.Coll.Build() }); did {
		obs.Fs = append(obs.Fs, Finding{feat("clause", "build-panic", "build", "second"), fmt.Sprint(p)})
	} else if e2.BuildErr != nil {
		obs.Fs = append(obs.Fs, Finding{feat("clause", "rebuild-verdict-differs"), fmt.Sprintf("the first Build of the collection succeeded, the second failed: %v", e2.BuildErr)})
	} else {
		e2.Do(Op{Kind: "scope", Bind: "s1"})
		c.probeAll(e2, "s1")
		if g2 := objectGraph(e2, 0); g2 != obs.Graph {
			obs.Fs = append(obs.Fs, Finding{feat("clause", "rebuild-wiring-differs"), fmt.Sprintf("second Build of the same collection wires differently:\n  first:  %s\n  second: %s", obs.Graph, g2)})
		}
		e2.Do(Op{Kind: "close", Scope: ""})
	}
	e.Do(Op{Kind: "close", Scope: ""})
	return
}

func viaForm(a, b *kit.Reg) string {
	if b.Group != "" {
		return "group"
	}
	if b.Name != "" {
		return "key"
	}
	return "plain"
}

type c06Case struct {
	Cfg     cfgCase `json:"cfg"`
	Reverse bool    `json:"base_reverse"`
	Choices []int   `json:"choices,omitempty"`
}

// sameGroupOrderPreserved: permutations may not reorder members of one group.
func groupOrderPreserved(c cfgCase, perm []int) bool {
	pos := map[int]int{}
	for k, idx := range perm {
		pos[idx] = k
	}
	for i := 0; i < c.N; i++ {
		for j := i + 1; j < c.N; j++ {
			ti, _, gi := c.typeOf(i)
			tj, _, gj := c.typeOf(j)
			if gi != "" && gi == gj && ti == tj && pos[i] > pos[j] {
				return false
			}
		}
	}
	return true
}

func c06Config(r *mc.Report, base cfgCase, orderDev int) {
	nreg := 0
	for i := 0; i < base.N; i++ {
		if base.Missing&(1<<i) == 0 {
			nreg++
		}
	}
	var ref *c06Obs
	compare := func(cc c06Case, o c06Obs, cost [2]int) {
		for _, f := range o.Fs {
			r.Violate(f.F, f.Detail+"\n  "+cc.Cfg.String(), cc)
		}
		if ref == nil {
			ref = &o
			return
		}
		how := "registration-order"
		if cost[1] > 0 || cc.Reverse {
			how = "map-order"
		}
		if o.Verdict != ref.Verdict {
			r.Violate(feat("clause", "verdict-depends-on-order", "how", how, "verdicts", ref.Verdict+"/"+o.Verdict),
				fmt.Sprintf("Build verdict %q for registration order %v (map base reversed=%v, choices %v) but %q for the reference order\n  %s", o.Verdict, cc.Cfg.Perm, cc.Reverse, cc.Choices, ref.Verdict, cc.Cfg.String()), cc)
		} else if o.Graph != ref.Graph {
			r.Violate(feat("clause", "wiring-depends-on-order", "how", how),
				fmt.Sprintf("object graph differs from the reference order:\n  this:      %s\n  reference: %s\n  %s", o.Graph, ref.Graph, cc.Cfg.String()), cc)
		}
	}
	for _, perm := range permutations(nreg) {
		c := base
		c.Perm = perm
		if !groupOrderPreserved(base, perm) {
			continue
		}
		for _, rev := range []bool{false, true} {
			cc := c06Case{Cfg: c, Reverse: rev}
			var o c06Obs
			vsched.BaseReverse = rev
			s := seqOnce(func() { o, _ = c06Run(c) })
			vsched.BaseReverse = false
			r.Executions++
			r.Validated++
			r.States++
			r.Transitions += int64(nreg + 1)
			o.Fs = append(o.Fs, genericFindings(nil, s)...)
			compare(cc, o, [2]int{})
		}
	}
	if orderDev > 0 {
		c := base
		var o c06Obs
		st := mc.Explore(mc.Bounds{OrderDev: orderDev, NoRace: true, Deadline: r.Deadline}, func() { o, _ = c06Run(c) }, func(s *vsched.Sched, cost [2]int) bool {
			compare(c06Case{Cfg: c, Choices: s.Choices()}, o, cost)
			return true
		})
		r.AddStats(st)
	}
	if ref != nil {
		r.Outcome(fmt.Sprintf("n=%d forms=%s verdict=%s", base.N, edgeFormsOf(base), ref.Verdict))
		if len(r.Samples) < 2 && base.Mask%11 == 7 {
			r.Sample(map[string]any{"config": base, "verdict": ref.Verdict, "object_graph": ref.Graph})
		}
	}
}

func c06Replay(r *mc.Report) bool {
	if r.Only == nil {
		return false
	}
	var cc c06Case
	if json.Unmarshal(r.Only, &cc) != nil || cc.Cfg.N == 0 {
		return true
	}
	// re-run the whole configuration: the verdict is relative to its reference order
	base := cc.Cfg
	base.Perm = nil
	r.Only = nil
	dev := 0
	if len(cc.Choices) > 0 {
		dev = 1
	}
	c06Config(r, base, dev)
	return true
}

func c06Containers(r *mc.Report, n int, orderDev int, shard, nshards int) {
	if c06Replay(r) {
		return
	}
	lifes := [][]string{uniformTargets(n, "singleton"), uniformTargets(n, "scoped")}
	if n == 3 {
		lifes = append(lifes, []string{"scoped", "singleton", "transient"}, []string{"singleton", "transient", "singleton"})
	}
	var targets [][]string
	if n <= 3 {
		targets = allTargets(n, []string{"plain", "keyed", "group"})
	} else {
		for _, f := range []string{"plain", "keyed", "group"} {
			targets = append(targets, uniformTargets(n, f))
		}
	}
	total := uint32(1) << (n * n)
	k := 0
	for mask := uint32(0); mask < total; mask++ {
		if n == 4 {
			// 4 services: DAGs in both directions of the fixed order, plus 2-cycles (verdict must not depend on order either)
			isDag := false
			for _, dm := range dagMasks(4) {
				if dm == mask {
					isDag = true
				}
			}
			if !isDag && mask%257 != 0 {
				continue
			}
		}
		for _, t := range targets {
			for _, life := range lifes {
				k++
				if nshards > 1 && k%nshards != shard {
					continue
				}
				c06Config(r, cfgCase{N: n, Mask: mask, Life: life, Target: t, Shape: "in"}, orderDev)
				vdev := orderDev
				if n >= 3 {
					vdev = 0 // the optional / duplicated variants are explored under both base orders only
				}
				if n <= 3 && mask != 0 {
					// the same set with every dependency declared optional (and registered)
					c06Config(r, cfgCase{N: n, Mask: mask, Life: life, Target: t, Shape: "in", OptMask: mask}, vdev)
				}
				if mask != 0 && fmt.Sprint(t) == fmt.Sprint(uniformTargets(n, "plain")) {
					// the same set with one dependency (each in turn) / every dependency declared twice
					c06Config(r, cfgCase{N: n, Mask: mask, Life: life, Target: t, Shape: "positional", DupMask: mask}, vdev)
					for b := 0; b < n*n; b++ {
						if mask&(1<<b) != 0 && mask != 1<<b {
							c06Config(r, cfgCase{N: n, Mask: mask, Life: life, Target: t, Shape: "positional", DupMask: 1 << b}, vdev)
						}
					}
				}
			}
		}
	}
}

// groups with several members of one type, each with its own dependencies
func c06Groups(r *mc.Report, orderDev int) {
	if c06Replay(r) {
		return
	}
	for _, life := range [][]string{uniformTargets(4, "singleton"), {"singleton", "singleton", "singleton", "scoped"}, {"scoped", "singleton", "transient", "singleton"}} {
		for _, mask := range []uint32{
			1<<(0*4+1) | 1<<(0*4+2) | 1<<(1*4+3) | 1<<(2*4+3), // consumer -> {m1,m2} -> base
			1<<(0*4+1) | 1<<(0*4+2) | 1<<(1*4+3),
			1<<(0*4+1) | 1<<(0*4+2) | 1<<(2*4+1), // member depends on the other member? (1 in group, 2 depends on 1 as group consumer)
			1<<(0*4+1) | 1<<(0*4+2),
		} {
			c06Config(r, cfgCase{N: 4, Mask: mask, Life: life, Target: []string{"plain", "group", "group", "plain"}, Shape: "in", Extra: "merge12"}, orderDev)
		}
	}
}

// graph component: topological order of every labelled DAG on <=4 nodes under map-order deviations
func c06Topo(r *mc.Report, n int, orderDev int, shard, nshards int) {
	if r.Only != nil {
		return
	}
	pool := gPool4[:n]
	total := uint32(1) << (n * n)
	for mask := uint32(0); mask < total; mask++ {
		if nshards > 1 && int(mask)%nshards != shard {
			continue
		}
		m := newDigraph()
		adj := adjOf(n, mask, false)
		for i := 0; i < n; i++ {
			m.add(i, adj[i])
		}
		if m.cyclic() {
			continue
		}
		for _, variant := range []struct{ rev, dup bool }{{false, false}, {true, false}, {false, true}} {
			var fs []Finding
			rev, dupFirst := variant.rev, variant.dup
			body := func() {
				st := newGState(pool)
				for i := 0; i < n; i++ {
					deps := adj[i]
					if dupFirst && len(deps) > 0 {
						deps = append([]int{deps[0]}, deps...)
					}
					st.apply(gop{Kind: "defer", N: i, Deps: deps})
				}
				st.apply(gop{Kind: "detect"})
				fs = st.queries(0)
			}
			vsched.BaseReverse = rev
			st := mc.Explore(mc.Bounds{OrderDev: orderDev, NoRace: true, Deadline: r.Deadline}, body, func(s *vsched.Sched, cost [2]int) bool {
				for _, f := range fs {
					f.F["component"] = "graph"
					r.Violate(f.F, f.Detail+fmt.Sprintf("\n  DAG n=%d adjacency=%v base-reversed=%v choices=%v", n, adj, rev, s.Choices()), map[string]any{"n": n, "mask": mask, "choices": s.Choices()})
				}
				return true
			})
			vsched.BaseReverse = false
			r.AddStats(st)
		}
	}
	r.Outcome(fmt.Sprintf("topo n=%d shard %d", n, shard))
}

func init() {
	mc.Register(&mc.Check{
		Prop:        "C06",
		Rule:        "container: all digraphs on <=3 services x all per-target forms {plain, keyed, group} x 2-4 lifetime patterns (each also with every dependency declared optional), the 64 DAGs (+ sampled-by-mask cyclic sets) on 4 services x uniform forms, and 12 configurations with a two-member group whose members have dependencies; (plain-form sets also with one / every dependency declared twice); each x ALL permutations of the registration calls (intra-group order preserved) x canonical and reversed base map-iteration order, plus every single non-identity permutation of one map range during Build (order deviation 1; 2 in thorough for n<=3): one verdict class and one canonical object graph per configuration (also when the same collection is Built a second time), and every singleton constructed after the singletons it depends on (group edges included). Graph component: every labelled DAG on <=4 nodes (543) x both base orders (and once with every node's first dependency declared twice) x order deviation 1 (2 thorough): TopologicalSort lists every node once, dependencies first. distinct = (size, forms, verdict) classes. Rebuild after edit: every history to depth 5 (quick) / 6 (thorough) over {14 Add variants (singleton / transient / scoped consumers with optional, required, keyed, group and keyed-optional dependencies; singleton and scoped providers, keyed providers, group members, unrelated services), Remove x3, RemoveKeyed, Build (<=2)}: the verdict of every Build of the edited collection equals the verdict of a FRESH collection holding the surviving registrations (differential oracle), a successful Build hands no scoped instance to a singleton / transient and leaves no registered identity unresolvable.",
		Assume:      []string{"map iteration order is a controlled choice: every `range` over a map in godi is redirected to the explorer", "repeated builds with different hash seeds are subsumed by the enumerated iteration orders"},
		MinOutcomes: 6,
		Jobs: func(tier string) []mc.Job {
			dev := 1
			var jobs []mc.Job
			jobs = append(jobs, mc.Job{Name: "c06-cont2", Run: func(r *mc.Report) { c06Containers(r, 2, dev, 0, 1) }})
			d3 := 0
			if tier == "thorough" {
				d3 = 1
			}
			n3 := 16
			if tier == "thorough" {
				n3 = 48
			}
			for sh := 0; sh < n3; sh++ {
				sh := sh
				jobs = append(jobs, mc.Job{Name: fmt.Sprintf("c06-cont3#%d", sh), Weight: 10, Run: func(r *mc.Report) { c06Containers(r, 3, d3, sh, n3) }})
			}
			for sh := 0; sh < 4; sh++ {
				sh := sh
				jobs = append(jobs, mc.Job{Name: fmt.Sprintf("c06-cont4#%d", sh), Weight: 6, Run: func(r *mc.Report) { c06Containers(r, 4, 0, sh, 4) }})
			}
			jobs = append(jobs, mc.Job{Name: "c06-groups", Weight: 8, Run: func(r *mc.Report) { c06Groups(r, dev) }})
			td := 1
			if tier == "thorough" {
				td = 2
			}
			jobs = append(jobs, mc.Job{Name: "c06-topo3", Run: func(r *mc.Report) { c06Topo(r, 3, td, 0, 1) }})
			for sh := 0; sh < 8; sh++ {
				sh := sh
				jobs = append(jobs, mc.Job{Name: fmt.Sprintf("c06-topo4#%d", sh), Weight: 7, Run: func(r *mc.Report) { c06Topo(r, 4, td, sh, 8) }})
			}
			jobs = append(jobs, rbJobs("C06", depth4(tier)+1)...)
			return jobs
		},
	})
}
