package props

import (
	"fmt"
	"sort"
	"strings"

	"github.com/junioryono/godi/v4/verifmc/kit"
)

// The reference model: a deliberately naive registry + dependency relation +
// build verdict, written from the property statements and godi's documentation.

type Ident struct {
	T, Key, Group string
}

func (i Ident) String() string {
	s := i.T
	if i.Key != "" {
		s += "@" + i.Key
	}
	if i.Group != "" {
		s += "[" + i.Group + "]"
	}
	return s
}

// RegOut is "output k of registration r".
type RegOut struct {
	Reg, Out int
}

type Model struct {
	Spec     *kit.Spec
	Services map[Ident]RegOut   // (T,key) -> provider
	Groups   map[Ident][]RegOut // (T,"",group) -> members in registration order
	AddErr   []string           // per registration: "" | "already" | "reserved" | "invalid"
	regs     map[int]*kit.Reg
}

var reservedNames = map[string]bool{"ctx": true, "scope": true, "provider": true}

// identsOf lists the identities a registration produces, in registration order.
func identsOf(r *kit.Reg) []struct {
	Id  Ident
	Out int
} {
	type io = struct {
		Id  Ident
		Out int
	}
	var out []io
	switch r.Kind {
	case "void", "voiderr":
		if r.Name != "" {
			// a named function without results is registered under (struct{}, name)
			return append(out, io{Ident{T: "void", Key: r.Name}, 0})
		}
		return nil
	}
	if r.ResObj {
		for k, o := range r.Outs {
			out = append(out, io{Ident{T: o.T, Key: o.Key, Group: o.Group}, k})
		}
		return out
	}
	if len(r.Outs) > 1 {
		for k, o := range r.Outs {
			id := Ident{T: o.T, Group: r.Group}
			if k == 0 {
				id.Key = r.Name
			}
			out = append(out, io{id, k})
		}
		return out
	}
	if len(r.As) > 0 {
		for _, a := range r.As {
			out = append(out, io{Ident{T: a, Key: r.Name, Group: r.Group}, 0})
		}
		return out
	}
	out = append(out, io{Ident{T: r.Outs[0].T, Key: r.Name, Group: r.Group}, 0})
	return out
}

func validOptions(r *kit.Reg) bool {
	if r.Name != "" && r.Group != "" {
		return false
	}
	if strings.ContainsRune(r.Name, '`') || strings.ContainsRune(r.Group, '`') {
		return false
	}
	return true
}

// NewModel applies the registrations in order; a rejected registration leaves
// the registry unchanged.
func NewModel(spec *kit.Spec) *Model {
	m := &Model{Spec: spec, Services: map[Ident]RegOut{}, Groups: map[Ident][]RegOut{}, regs: map[int]*kit.Reg{}}
	for i := range spec.Regs {
		for _, d := range spec.Regs[i].RemoveFirst {
			m.Remove(d.T, d.Key)
		}
		m.AddErr = append(m.AddErr, m.Add(&spec.Regs[i]))
	}
	return m
}

func (m *Model) Add(r *kit.Reg) string {
	m.regs[r.ID] = r
	if !validOptions(r) {
		return "invalid"
	}
	ids := identsOf(r)
	seen := map[Ident]bool{}
	for _, io := range ids {
		if reservedNames[io.Id.T] {
			return "reserved"
		}
		if io.Id.Group == "" {
			if _, dup := m.Services[io.Id]; dup || seen[io.Id] {
				return "already"
			}
			seen[io.Id] = true
		}
	}
	for _, io := range ids {
		if io.Id.Group != "" {
			g := Ident{T: io.Id.T, Group: io.Id.Group}
			m.Groups[g] = append(m.Groups[g], RegOut{r.ID, io.Out})
		} else {
			m.Services[io.Id] = RegOut{r.ID, io.Out}
		}
	}
	return ""
}

func (m *Model) Remove(t, key string) {
	delete(m.Services, Ident{T: t, Key: key})
}

// Registered lists the registrations that are part of the registry.
func (m *Model) Registered() []int {
	set := map[int]bool{}
	for _, ro := range m.Services {
		set[ro.Reg] = true
	}
	for _, l := range m.Groups {
		for _, ro := range l {
			set[ro.Reg] = true
		}
	}
	for i, r := range m.Spec.Regs {
		if (r.Kind == "void" || r.Kind == "voiderr") && m.AddErr[i] == "" && r.Name == "" {
			set[r.ID] = true // (named ones are in Services and can be removed again)
		}
	}
	var out []int
	for id := range set {
		out = append(out, id)
	}
	sort.Ints(out)
	return out
}

// DepTargets returns the registrations a dependency resolves to (none when it
// is unregistered or a built-in).
func (m *Model) DepTargets(d kit.Dep) (targets []RegOut, builtin bool, found bool) {
	if d.Ignore || d.Unexp {
		return nil, false, true
	}
	if d.Group != "" {
		return m.Groups[Ident{T: d.T, Group: d.Group}], false, true
	}
	if reservedNames[d.T] && d.Key == "" {
		return nil, true, true
	}
	ro, ok := m.Services[Ident{T: d.T, Key: d.Key}]
	if !ok {
		return nil, false, false
	}
	return []RegOut{ro}, false, true
}

// Edges returns the dependency relation among registered registrations.
func (m *Model) Edges() map[int][]int {
	e := map[int][]int{}
	for _, id := range m.Registered() {
		r := m.regs[id]
		for _, d := range r.Deps {
			ts, _, _ := m.DepTargets(d)
			for _, t := range ts {
				e[id] = append(e[id], t.Reg)
			}
		}
	}
	return e
}

// HasCycle reports whether the dependency relation has a directed cycle
// (Tarjan-free: colour DFS; graphs are tiny).
func (m *Model) HasCycle() bool {
	e := m.Edges()
	col := map[int]int{}
	var dfs func(n int) bool
	dfs = func(n int) bool {
		col[n] = 1
		for _, t := range e[n] {
			if col[t] == 1 {
				return true
			}
			if col[t] == 0 && dfs(t) {
				return true
			}
		}
		col[n] = 2
		return false
	}
	for _, id := range m.Registered() {
		if col[id] == 0 && dfs(id) {
			return true
		}
	}
	return false
}

// LifetimeConflict reports whether some singleton/transient declares a
// dependency whose registration is scoped.
func (m *Model) LifetimeConflict() bool {
	for _, id := range m.Registered() {
		r := m.regs[id]
		if r.Life == "scoped" {
			continue
		}
		for _, d := range r.Deps {
			ts, _, _ := m.DepTargets(d)
			for _, t := range ts {
				if m.regs[t.Reg].Life == "scoped" {
					return true
				}
			}
		}
	}
	return false
}

// Missing reports whether some registered service has a required dependency
// that is neither registered nor built-in.
func (m *Model) Missing() bool {
	for _, id := range m.Registered() {
		r := m.regs[id]
		for _, d := range r.Deps {
			if d.Opt || d.Group != "" {
				continue
			}
			if _, _, found := m.DepTargets(d); !found {
				return true
			}
		}
	}
	return false
}

// Verdict is the set of acceptable Build outcomes.
func (m *Model) Verdict() string {
	var v []string
	if m.HasCycle() {
		v = append(v, "circular")
	}
	if m.LifetimeConflict() {
		v = append(v, "lifetime")
	}
	if m.Missing() {
		v = append(v, "missing")
	}
	if len(v) == 0 {
		return "ok"
	}
	return strings.Join(v, "+")
}

// WiringOracle checks C04's argument/identity clauses on everything recorded:
// every constructor invocation received, for every declared dependency, the
// instance(s) of exactly the registration the model maps that identity to.
func (e *Env) WiringOracle(m *Model) []Finding {
	var out []Finding
	for _, c := range e.W.Calls {
		r := e.reg(c.Reg)
		if r == nil {
			continue
		}
		for i, d := range r.Deps {
			if i >= len(c.Args) {
				out = append(out, Finding{feat("clause", "arg-missing"), fmt.Sprintf("r%d#%d: argument %d not recorded", c.Reg, c.Serial, i)})
				continue
			}
			a := c.Args[i]
			shape := depShape(r, d)
			ts, builtin, found := m.DepTargets(d)
			bad := func(why string) {
				out = append(out, Finding{feat("clause", "wrong-argument", "dep", shape, "why", why),
					fmt.Sprintf("constructor %s invocation #%d: dependency %d (%s) received %s: %s", r, c.Serial, i, shape, a.String(), why)})
			}
			switch {
			case d.Ignore || d.Unexp:
				if a.Kind != "nil" && a.Kind != "nillist" && a.Kind != "unexported" {
					bad("ignored/unexported field was populated")
				}
			case builtin:
				if a.Kind != d.T {
					bad("built-in " + d.T + " expected")
				}
			case d.Group != "":
				if a.Kind != "list" && !(a.Kind == "nillist" && len(ts) == 0) {
					bad("group field is not a slice")
					continue
				}
				if a.Kind == "nillist" {
					bad("empty group must be an empty slice, got nil slice")
					continue
				}
				if len(a.List) != len(ts) {
					bad(fmt.Sprintf("group has %d members registered, received %d", len(ts), len(a.List)))
					continue
				}
				for k, x := range a.List {
					if x.Kind != "inst" || x.Inst.Reg != ts[k].Reg || x.Inst.Out != ts[k].Out {
						bad(fmt.Sprintf("group member %d should come from r%d output %d", k, ts[k].Reg, ts[k].Out))
					}
				}
			case !found:
				if d.Opt {
					if a.Kind != "nil" {
						bad("optional dependency is unregistered, field must stay zero")
					}
				} else {
					bad("dependency is unregistered yet the constructor ran")
				}
			default:
				if d.T == "void" {
					// the "service" of a function without results is the empty struct: nothing to identify
					continue
				}
				if a.Kind != "inst" {
					if d.Opt {
						bad("optional dependency is registered but the field was left zero")
					} else {
						bad("expected an instance")
					}
					continue
				}
				if a.Inst.Reg != ts[0].Reg || a.Inst.Out != ts[0].Out {
					bad(fmt.Sprintf("should come from r%d output %d", ts[0].Reg, ts[0].Out))
				}
			}
		}
	}
	return out
}

func depShape(r *kit.Reg, d kit.Dep) string {
	s := "param"
	if r.In {
		s = "field"
	}
	switch {
	case d.Ignore:
		s += "-ignore"
	case d.Unexp:
		s += "-unexported"
	case d.Group != "":
		s += "-group"
	case d.Key != "" && d.Opt:
		s += "-named-optional"
	case d.Key != "":
		s += "-named"
	case d.Opt:
		s += "-optional"
	}
	return s
}
