// Package props holds the per-property checks (alphabets, bounds, oracles).
package props

import (
	"context"
	"encoding/json"
	"fmt"
	"reflect"
	"sort"
	"strings"

	"github.com/junioryono/godi/v4"
	"github.com/junioryono/godi/v4/internal/vsched"
	"github.com/junioryono/godi/v4/verifmc/kit"
)

// Op is one harness operation on a provider / scope.
type Op struct {
	Kind  string `json:"k"`              // scope | get | group | close | cancel | settle | build
	Scope string `json:"s,omitempty"`    // "" = provider, otherwise the Bind name of a scope
	Bind  string `json:"bind,omitempty"` // scope: name given to the created scope
	T     string `json:"t,omitempty"`
	Key   string `json:"key,omitempty"`
	Group string `json:"g,omitempty"`
	Ctx   string `json:"ctx,omitempty"` // scope: "" = Background, "nil" = nil, "cancel" = cancellable context owned by the harness
}

func (o Op) String() string {
	switch o.Kind {
	case "scope":
		return fmt.Sprintf("%s=CreateScope(%s,%s)", o.Bind, orP(o.Scope), o.Ctx)
	case "get":
		if o.Key != "" {
			return fmt.Sprintf("GetKeyed(%s,%s,%s)", orP(o.Scope), o.T, o.Key)
		}
		return fmt.Sprintf("Get(%s,%s)", orP(o.Scope), o.T)
	case "group":
		return fmt.Sprintf("GetGroup(%s,%s,%s)", orP(o.Scope), o.T, o.Group)
	case "close":
		return fmt.Sprintf("Close(%s)", orP(o.Scope))
	case "cancel":
		return fmt.Sprintf("cancel(%s)", o.Scope)
	case "coll-remove":
		return fmt.Sprintf("collection.Remove(%s,%s)", o.T, o.Key)
	}
	return o.Kind
}

func orP(s string) string {
	if s == "" {
		return "provider"
	}
	return s
}

// Res is the observation of one executed operation.
type Res struct {
	Op      Op
	Thread  int
	Start   int
	End     int
	Skipped bool
	Val     any
	Vals    []any
	Err     error
	Class   string
	Panic   any
	Label   string
}

type scopeRec struct {
	Name      string
	Parent    string // "" = provider
	S         godi.Scope
	Cancel    context.CancelFunc
	CallerCtx context.Context
	CreatedBy *Res
}

// Env is the state of one execution of a scenario.
type Env struct {
	W            *kit.World
	Coll         godi.Collection
	Prov         godi.Provider
	BuildErr     error
	AddErrs      []error
	Scopes       map[string]*scopeRec
	Results      []*Res
	curScope     map[int]string // thread -> scope name the running op resolves in ("" provider/root, "#build")
	CallScope    map[*kit.Call]string
	BuildPanic   any
	SharedCtx    context.Context
	SharedCancel context.CancelFunc
}

type ctxKey struct{}

func NewEnv(spec *kit.Spec) *Env {
	return &Env{W: kit.NewWorld(spec), Scopes: map[string]*scopeRec{}, curScope: map[int]string{}, CallScope: map[*kit.Call]string{}}
}

// Build registers the spec and builds the provider (inside the execution).
func (e *Env) Build() {
	e.Coll = godi.NewCollection()
	e.AddErrs = e.W.Apply(e.Coll)
	tid := vsched.ThreadID()
	e.curScope[tid] = "#build"
	n0 := len(e.W.Calls)
	withCtx := false
	for _, f := range e.W.Faults {
		if f == "cancel-build" {
			withCtx = true
		}
	}
	p, did := kit.Try(func() {
		if withCtx {
			ctx, cancel := context.WithCancel(context.Background())
			e.W.CancelBuild = cancel
			e.Prov, e.BuildErr = e.Coll.BuildWithContext(ctx)
			return
		}
		e.Prov, e.BuildErr = e.Coll.Build()
	})
	if did {
		e.BuildPanic = p
	}
	for _, c := range e.W.Calls[n0:] {
		e.CallScope[c] = "#build"
	}
	delete(e.curScope, tid)
}

func (e *Env) target(name string) (godi.Provider, bool) {
	if name == "" {
		return e.Prov, e.Prov != nil
	}
	s := e.Scopes[name]
	if s == nil || s.S == nil {
		return nil, false
	}
	return s.S, true
}

// Do executes one operation and records its observation.
func (e *Env) Do(op Op) *Res {
	r := &Res{Op: op, Thread: vsched.ThreadID()}
	e.Results = append(e.Results, r)
	if op.Kind == "get" || op.Kind == "group" || op.Kind == "scope" {
		e.W.OpBegin()
		defer e.W.OpEnd()
	}
	if op.Kind == "settle" {
		vsched.Settle()
		r.Start = e.W.Mark("settle")
		r.End = r.Start
		return r
	}
	if op.Kind == "cancel" {
		s := e.Scopes[op.Scope]
		if s == nil || s.Cancel == nil {
			r.Skipped = true
			return r
		}
		r.Start = e.W.Mark("op " + op.String())
		s.Cancel()
		r.End = e.W.Mark("end " + op.String())
		return r
	}
	if op.Kind == "coll-remove" {
		// the COLLECTION the provider was built from is edited afterwards (no effect on the provider)
		r.Start = e.W.Mark("op " + op.String())
		if op.Key != "" {
			e.Coll.RemoveKeyed(kit.TypeOf(op.T), op.Key)
		} else {
			e.Coll.Remove(kit.TypeOf(op.T))
		}
		r.End = e.W.Mark("end " + op.String())
		return r
	}
	tgt, ok := e.target(op.Scope)
	if !ok {
		r.Skipped = true
		return r
	}
	tid := vsched.ThreadID()
	scopeName := op.Scope
	if op.Kind == "scope" {
		scopeName = op.Bind
	}
	e.curScope[tid] = scopeName
	n0 := len(e.W.Calls)
	r.Start = e.W.Mark("op " + op.String())
	p, did := kit.Try(func() {
		switch op.Kind {
		case "get":
			if op.Key != "" {
				r.Val, r.Err = tgt.GetKeyed(kit.TypeOf(op.T), op.Key)
			} else {
				r.Val, r.Err = tgt.Get(kit.TypeOf(op.T))
			}
		case "group":
			r.Vals, r.Err = tgt.GetGroup(kit.TypeOf(op.T), op.Group)
		case "close":
			r.Err = tgt.Close()
		case "scope":
			var ctx context.Context
			sr := &scopeRec{Name: op.Bind, Parent: op.Scope, CreatedBy: r}
			switch op.Ctx {
			case "nil":
				ctx = nil
			case "shared":
				// one long-lived cancellable caller context shared by all scopes, never cancelled
				if e.SharedCtx == nil {
					e.SharedCtx, e.SharedCancel = context.WithCancel(context.WithValue(context.Background(), ctxKey{}, "shared"))
				}
				ctx = e.SharedCtx
				sr.CallerCtx = ctx
			case "pcancel":
				// a cancellable context DERIVED FROM THE PARENT SCOPE'S OWN CONTEXT (it already carries the parent scope)
				var base context.Context = context.Background()
				if ps, ok := tgt.(godi.Scope); ok {
					base = ps.Context()
				}
				ctx, sr.Cancel = context.WithCancel(context.WithValue(base, ctxKey{}, op.Bind))
				sr.CallerCtx = ctx
			case "from-s1":
				// a cancellable context derived from the Context() of scope s1 (which need not be the parent):
				// it already carries ANOTHER scope
				var base context.Context = context.Background()
				if o := e.Scopes["s1"]; o != nil && o.S != nil {
					base = o.S.Context()
				}
				ctx, sr.Cancel = context.WithCancel(context.WithValue(base, ctxKey{}, op.Bind))
				sr.CallerCtx = ctx
			case "cancel":
				base := context.WithValue(context.Background(), ctxKey{}, op.Bind)
				ctx, sr.Cancel = context.WithCancel(base)
				sr.CallerCtx = ctx
			default:
				ctx = context.WithValue(context.Background(), ctxKey{}, op.Bind)
				sr.CallerCtx = ctx
			}
			var s godi.Scope
			s, r.Err = tgt.CreateScope(ctx)
			if r.Err == nil && s != nil {
				sr.S = s
				r.Val = s
			}
			e.Scopes[op.Bind] = sr
		default:
			panic("props: unknown op " + op.Kind)
		}
	})
	r.End = e.W.Mark("end " + op.String())
	// attribute the constructor calls made by this thread during the op
	for _, c := range e.W.Calls[n0:] {
		if c.Thread == tid {
			if _, seen := e.CallScope[c]; !seen {
				e.CallScope[c] = scopeName
				if c.Via == "child" {
					// made for a child scope that a constructor of this operation created itself
					e.CallScope[c] = scopeName + "/child"
				}
			}
		}
	}
	delete(e.curScope, tid)
	if did {
		r.Panic = p
		r.Class = "PANIC"
		r.Label = fmt.Sprintf("PANIC(%v)", p)
		return r
	}
	r.Class = kit.ClassOf(r.Err)
	switch {
	case r.Err != nil:
		r.Label = "err:" + r.Class
	case op.Kind == "group":
		l := make([]string, len(r.Vals))
		for i, v := range r.Vals {
			l[i] = kit.Describe(v)
		}
		r.Label = "[" + strings.Join(l, " ") + "]"
	case op.Kind == "get":
		r.Label = kit.Describe(r.Val)
	default:
		r.Label = "ok"
	}
	return r
}

// ScopeOfCall returns the scope name a constructor call ran on behalf of.
// Calls made while several operations of different threads overlap are
// attributed by thread.
func (e *Env) ScopeOfCall(c *kit.Call) string {
	if s, ok := e.CallScope[c]; ok {
		return s
	}
	return "?"
}

// Summary is a canonical one-line description of all observations (used as
// the outcome class of an execution).
func (e *Env) Summary() string {
	var b strings.Builder
	if e.BuildErr != nil {
		b.WriteString("build:" + kit.ClassOf(e.BuildErr) + " ")
	}
	rs := append([]*Res{}, e.Results...)
	sort.SliceStable(rs, func(i, j int) bool { return rs[i].Thread < rs[j].Thread })
	for _, r := range rs {
		if r.Skipped {
			fmt.Fprintf(&b, "t%d:%s=skipped ", r.Thread, r.Op.Kind)
			continue
		}
		fmt.Fprintf(&b, "t%d:%s=%s ", r.Thread, r.Op.String(), r.Label)
	}
	return b.String()
}

// Scenario is a closed multi-threaded program over one spec.
type Scenario struct {
	Name      string            `json:"name"`
	Spec      kit.Spec          `json:"spec"`
	Faults    map[string]string `json:"faults,omitempty"`
	CloseFail []string          `json:"closefail,omitempty"`
	Setup     []Op              `json:"setup,omitempty"`
	Threads   [][]Op            `json:"threads,omitempty"`
	Final     []Op              `json:"final,omitempty"`
}

// Run executes the scenario (as the body of one vsched execution, or free of
// the scheduler) and returns its environment.
func (sc *Scenario) Run() *Env {
	var e *Env
	sc.RunInto(&e)
	return e
}

// RunInto is Run publishing the environment before the first operation (so
// that an aborted execution still leaves its observations).
func (sc *Scenario) RunInto(out **Env) *Env {
	e := NewEnv(&sc.Spec)
	*out = e
	for k, v := range sc.Faults {
		e.W.Faults[k] = v
	}
	for _, l := range sc.CloseFail {
		e.W.CloseFail[l] = true
	}
	e.Build()
	if e.Prov == nil {
		return e
	}
	for _, op := range sc.Setup {
		e.Do(op)
	}
	var hs []*vsched.Handle
	for _, ops := range sc.Threads {
		ops := ops
		hs = append(hs, vsched.Go(func() {
			for _, op := range ops {
				e.Do(op)
			}
		}))
	}
	for _, h := range hs {
		vsched.Join(h)
	}
	for _, op := range sc.Final {
		e.Do(op)
	}
	return e
}

func (sc *Scenario) JSON() json.RawMessage {
	b, _ := json.Marshal(sc)
	return b
}

// typeOfName is a helper for direct godi calls.
func typeOfName(n string) reflect.Type { return kit.TypeOf(n) }
