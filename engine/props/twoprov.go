package props

import (
	"encoding/json"
	"fmt"
	"strings"

	"github.com/junioryono/godi/v4/verifmc/kit"
	"github.com/junioryono/godi/v4/verifmc/mc"
)

// Two providers built from ONE collection and alive at the same time: every
// history (to a depth) over {use p1, use p2, close p1, close p2}. The lifetime
// properties are stated per provider ("for every provider returned by a
// successful Build"), disposal per owner: nothing may be shared between the two
// providers except registered instance values, and closing one must leave the
// other fully usable.

type twoProvCase struct {
	History []string `json:"history"` // u1 | u2 | c1 | c2
	Init    bool     `json:"init"`    // spec with scoped initializers
}

func twoProvSpec(init bool) kit.Spec {
	s := dispSpec(init)
	// non-disposable forms as well: multi-output singleton, aliases, instance value, keyed, group
	s.Regs = append(s.Regs,
		kit.Reg{ID: 20, Life: "singleton", Outs: []kit.Out{{T: "P1"}, {T: "P4"}}},
		kit.Reg{ID: 21, Life: "singleton", ResObj: true, Outs: []kit.Out{{T: "P2"}, {T: "P3", Key: "k"}}},
		kit.Reg{ID: 22, Life: "singleton", Kind: "instance", Outs: []kit.Out{{T: "P4"}}, Name: "i"},
		kit.Reg{ID: 23, Life: "singleton", Outs: []kit.Out{{T: "P5"}}, Group: "g"},
		kit.Reg{ID: 24, Life: "scoped", Outs: []kit.Out{{T: "P5"}}, Group: "g", Deps: []kit.Dep{{T: "P0"}}},
		kit.Reg{ID: 25, Life: "scoped", In: true, Outs: []kit.Out{{T: "P5"}}, Name: "k", Deps: []kit.Dep{{T: "P5", Group: "g"}, {T: "P3", Key: "k"}, {T: "P4", Key: "i"}, {T: "P4"}, {T: "D2"}}},
	)
	return s
}

var twoProvProbes = []Op{{Kind: "get", T: "D1"}, {Kind: "get", T: "D2"}, {Kind: "get", T: "D3"}, {Kind: "get", T: "D5"}, {Kind: "get", T: "IB"}, {Kind: "get", T: "IA", Key: "ks"}, {Kind: "get", T: "IB", Key: "kc"},
	{Kind: "get", T: "P0"}, {Kind: "get", T: "P1"}, {Kind: "get", T: "P3", Key: "k"}, {Kind: "get", T: "P4"}, {Kind: "get", T: "P4", Key: "i"}, {Kind: "group", T: "P5", Group: "g"}, {Kind: "get", T: "P5", Key: "k"}, {Kind: "get", T: "D1"}}

func twoProvRun(c twoProvCase) (fs []Finding, summary string) {
	spec := twoProvSpec(c.Init)
	bad := func(clause, d string, kv ...string) {
		fs = append(fs, Finding{feat(append([]string{"clause", clause, "scenario", "two-providers"}, kv...)...), d})
	}
	e1 := NewEnv(&spec)
	e1.Build()
	if e1.Prov == nil {
		bad("build-failed", fmt.Sprint(e1.BuildErr))
		return fs, "build-failed"
	}
	for i, ae := range e1.AddErrs {
		if ae != nil {
			bad("build-failed", fmt.Sprintf("registration %d of the scenario's own spec was rejected: %v", i, ae))
			return fs, "registration-failed"
		}
	}
	nBuild1 := len(e1.W.Calls)
	e2 := &Env{W: e1.W, Coll: e1.Coll, Scopes: map[string]*scopeRec{}, curScope: map[int]string{}, CallScope: map[*kit.Call]string{}}
	if p, did := kit.Try(func() { e2.Prov, e2.BuildErr = e1.Coll.Build() }); did || e2.BuildErr != nil || e2.Prov == nil {
		bad("second-build-failed", fmt.Sprintf("the second Build of the same collection failed: %v %v", p, e2.BuildErr))
		return fs, "second-build-failed"
	}
	envs := []*Env{e1, e2}
	// which provider a constructor call worked for
	owner := map[*kit.Call]int{}
	for i, cl := range e1.W.Calls {
		if i < nBuild1 {
			owner[cl] = 0
		} else {
			owner[cl] = 1
		}
	}
	closed := []bool{false, false}
	closeStart := []int{0, 0}
	closeEnd := []int{0, 0}
	nScope := []int{0, 0}
	var sum []string
	do := func(k int, op Op) *Res {
		n0 := len(e1.W.Calls)
		r := envs[k].Do(op)
		for _, cl := range e1.W.Calls[n0:] {
			owner[cl] = k
		}
		return r
	}
	for _, h := range c.History {
		k := int(h[1] - '1')
		switch h[0] {
		case 'u':
			nScope[k]++
			sn := fmt.Sprintf("s%d", nScope[k])
			r := do(k, Op{Kind: "scope", Bind: sn})
			if closed[k] {
				if r.Err == nil || !strings.Contains(r.Class, "disposed") {
					bad("closed-provider-usable", fmt.Sprintf("provider %d was closed, yet CreateScope returned %v", k+1, r.Err))
				}
				sum = append(sum, h+"=refused")
				continue
			}
			if r.Err != nil || r.Panic != nil {
				bad("other-provider-affected", fmt.Sprintf("CreateScope on the open provider %d failed: %v %v (history %v)", k+1, r.Err, r.Panic, c.History), "op", "scope")
				continue
			}
			okAll := true
			for _, p := range twoProvProbes {
				p.Scope = sn
				if rr := do(k, p); rr.Err != nil || rr.Panic != nil {
					okAll = false
					bad("other-provider-affected", fmt.Sprintf("%s on the open provider %d failed: %v %v (history %v)", rr.Op, k+1, rr.Err, rr.Panic, c.History), "op", p.Kind)
				}
			}
			sum = append(sum, fmt.Sprintf("%s=%v", h, okAll))
		case 'c':
			r := do(k, Op{Kind: "close", Scope: ""})
			do(k, Op{Kind: "settle"})
			if !closed[k] {
				closed[k] = true
				closeStart[k], closeEnd[k] = r.Start, r.End
			}
			if r.Err != nil || r.Panic != nil {
				bad("close-failed", fmt.Sprintf("Close of provider %d returned %v %v", k+1, r.Err, r.Panic))
			}
			sum = append(sum, h)
		}
	}
	// state in which the history ends, before the final closes: who is closed
	endClosed := []bool{closed[0], closed[1]}
	// --- singletons: one construction per provider, at its Build
	for i := range spec.Regs {
		rg := &spec.Regs[i]
		if rg.Life != "singleton" || rg.Kind == "instance" {
			continue
		}
		per := []int{0, 0}
		for _, cl := range e1.W.CallsOf(rg.ID) {
			per[owner[cl]]++
		}
		if per[0] != 1 || per[1] != 1 {
			bad("singleton-ctor-count", fmt.Sprintf("singleton %s: constructed %d times for the first provider and %d times for the second, want 1 and 1", rg, per[0], per[1]), "life", "singleton", "form", regForm(rg))
		}
	}
	// --- nothing created for one provider is handed out by the other
	for k, e := range envs {
		seen := map[string]*kit.Inst{}
		for in, hs0 := range e.handouts() {
			if in.Given || in.Call == nil {
				continue
			}
			// the recorder is shared by both providers: keep results of this provider's operations and
			// arguments of the constructor calls made for this provider
			var hs []handout
			for _, h := range hs0 {
				if h.Res != nil || (h.Call != nil && owner[h.Call] == k) {
					hs = append(hs, h)
				}
			}
			if len(hs) == 0 {
				continue
			}
			if owner[in.Call] != k {
				bad("instance-crosses-providers", fmt.Sprintf("%s was created for provider %d but handed out by provider %d (%s)", in.Label(), owner[in.Call]+1, k+1, hs[0].Where), "life", e.reg(in.Reg).Life, "form", regForm(e.reg(in.Reg)))
			}
			if rg := e.reg(in.Reg); rg.Life == "singleton" {
				key := fmt.Sprintf("r%d.%d", in.Reg, in.Out)
				if prev := seen[key]; prev != nil && prev != in {
					bad("singleton-two-instances", fmt.Sprintf("provider %d handed out two instances of singleton %s: %s and %s", k+1, rg, prev.Label(), in.Label()), "life", "singleton", "form", regForm(rg))
				}
				seen[key] = in
			}
		}
	}
	// --- disposal: closing one provider closes exactly what it owns
	snapshot := func(when string) {
		for _, in := range e1.W.Insts {
			if in.Given || !in.Disp || in.Call == nil {
				continue
			}
			k := owner[in.Call]
			for _, cr := range in.Closes {
				o := 1 - k
				if closeStart[o] != 0 && cr.Stamp > closeStart[o] && cr.Stamp < closeEnd[o] && !(closeStart[k] != 0 && cr.Stamp > closeStart[k] && cr.Stamp < closeEnd[k]) {
					bad("closed-by-other-provider", fmt.Sprintf("%s belongs to provider %d but was closed during the Close of provider %d (%s)", in.Label(), k+1, o+1, when), "life", e1.reg(in.Reg).Life)
				}
			}
			if endClosed[k] && when == "end of history" && len(in.Closes) != 1 {
				bad("close-count", fmt.Sprintf("%s (provider %d, closed) was closed %d times (%s)", in.Label(), k+1, len(in.Closes), when), "life", e1.reg(in.Reg).Life, "count", fmt.Sprint(len(in.Closes)))
			}
			if !endClosed[k] && when == "end of history" && len(in.Closes) != 0 && e1.reg(in.Reg).Life == "singleton" {
				bad("closed-early", fmt.Sprintf("singleton %s of the still open provider %d was closed (%s)", in.Label(), k+1, when), "life", "singleton")
			}
		}
	}
	snapshot("end of history")
	for k := range envs {
		do(k, Op{Kind: "close", Scope: ""})
		do(k, Op{Kind: "settle"})
	}
	for _, in := range e1.W.Insts {
		if in.Given || !in.Disp {
			continue
		}
		if len(in.Closes) != 1 {
			bad("close-count-final", fmt.Sprintf("%s was closed %d times after both providers were closed", in.Label(), len(in.Closes)), "count", fmt.Sprint(len(in.Closes)))
		}
	}
	for _, e := range envs {
		for _, r := range e.Results {
			if r.Panic != nil {
				bad("panic", fmt.Sprintf("%s panicked: %v", r.Op, r.Panic), "op", r.Op.Kind)
			}
		}
	}
	return fs, strings.Join(sum, " ")
}

// twoProvClauses: which clauses of the shared scenario count for which property.
var twoProvClauses = map[string][]string{
	"C01": {"singleton-ctor-count", "singleton-two-instances", "instance-crosses-providers", "second-build-failed", "build-failed", "panic"},
	"C10": {"closed-by-other-provider", "close-count", "close-count-final", "closed-early", "close-failed", "panic"},
	"C13": {"closed-provider-usable", "other-provider-affected", "panic"},
}

func twoProvJob(prop string, depth int) mc.Job {
	return mc.Job{Name: prop + "-two-providers", Weight: 4, Run: func(r *mc.Report) {
		run := func(c twoProvCase) {
			var fs []Finding
			var sum string
			s := seqOnce(func() { fs, sum = twoProvRun(c) })
			r.Executions++
			r.Validated++
			r.States++
			r.Transitions += int64(len(c.History)*len(twoProvProbes) + 2)
			r.Outcome(fmt.Sprintf("two providers init=%v | %s", c.Init, sum))
			fs = append(fs, genericFindings(nil, s)...)
			for _, f := range fs {
				keep := false
				for _, cl := range twoProvClauses[prop] {
					if f.F["clause"] == cl {
						keep = true
					}
				}
				switch f.F["clause"] {
				case "thread-panic", "deadlock", "race":
					keep = true
				}
				if keep {
					r.Violate(f.F, f.Detail+fmt.Sprintf("\n  two providers built from one collection, history %v, initializers=%v", c.History, c.Init), c)
				}
			}
			if len(r.Samples) < 1 {
				r.Sample(map[string]any{"case": c, "observed": sum})
			}
		}
		if r.Only != nil {
			var c twoProvCase
			if json.Unmarshal(r.Only, &c) == nil && c.History != nil {
				run(c)
			}
			return
		}
		alpha := []string{"u1", "u2", "c1", "c2"}
		var rec func(h []string)
		rec = func(h []string) {
			for _, init := range []bool{false, true} {
				run(twoProvCase{History: append([]string{}, h...), Init: init})
			}
			if len(h) == depth {
				return
			}
			for _, a := range alpha {
				rec(append(h, a))
			}
		}
		rec(nil)
	}}
}
