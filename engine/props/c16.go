package props

import (
	"encoding/json"
	"errors"
	"fmt"
	"net/http"
	"net/http/httptest"
	"strings"

	"github.com/gin-gonic/gin"
	"github.com/gofiber/fiber/v2"
	fiberrecover "github.com/gofiber/fiber/v2/middleware/recover"
	"github.com/junioryono/godi/v4"
	godichi "github.com/junioryono/godi/v4/chi"
	godiecho "github.com/junioryono/godi/v4/echo"
	godifiber "github.com/junioryono/godi/v4/fiber"
	godigin "github.com/junioryono/godi/v4/gin"
	godihttp "github.com/junioryono/godi/v4/http"
	"github.com/junioryono/godi/v4/internal/vsched"
	"github.com/junioryono/godi/v4/verifmc/kit"
	"github.com/junioryono/godi/v4/verifmc/mc"
	"github.com/labstack/echo/v4"
)

// C16 — web middleware: one scope per request, visible to handlers, always closed.

type webCase struct {
	Integ       string `json:"integ"` // http | chi | gin | echo | fiber
	CustomErr   bool   `json:"custom_error_handler"`
	NMw         int    `json:"middlewares"`
	MwErrAt     int    `json:"mw_error_at"` // -1: none
	Recovery    bool   `json:"recovery"`
	CustomHands bool   `json:"custom_handle_handlers"`
	Exit        string `json:"exit"`  // ok | mw-error | handler-error | handler-panic | scope-fail | provider-closed | unregistered | no-middleware | raw
	Exit2       string `json:"exit2"` // second request on the same router ("" = none)
}

func webSpec() kit.Spec {
	return kit.Spec{Regs: []kit.Reg{
		{ID: 0, Life: "scoped", Outs: []kit.Out{{T: "D1"}}},
		{ID: 1, Life: "scoped", Outs: []kit.Out{{T: "P2"}}, Deps: []kit.Dep{{T: "D1"}, {T: "scope"}}},
		{ID: 2, Life: "scoped", Kind: "voiderr", Deps: []kit.Dep{{T: "D1"}}},
		{ID: 3, Life: "singleton", Outs: []kit.Out{{T: "D0"}}},
	}}
}

// weblog collects what ran during one request.
type weblog struct {
	events []string
	scopes []godi.Scope // scope seen by: middlewares…, handler
	ctl    *kit.P2
}

func (l *weblog) ev(s string) { l.events = append(l.events, s) }

type webHarness struct {
	e     *Env
	log   *weblog            // log of the most recent sequential request
	logs  map[string]*weblog // per request id (header X-Req)
	exits map[string]string  // exit path per request id
	c     webCase
}

// lg returns the log of request id.
func (h *webHarness) lg(id string) *weblog {
	if l := h.logs[id]; l != nil {
		return l
	}
	if h.logs == nil {
		h.logs = map[string]*weblog{}
	}
	l := &weblog{}
	h.logs[id] = l
	return l
}

var errMw = errors.New("middleware says no")
var errHandler = errors.New("handler says no")

func (h *webHarness) mw(i int, s godi.Scope, id string) error {
	vsched.Yield("mw")
	h.lg(id).ev(fmt.Sprintf("mw%d", i))
	h.lg(id).scopes = append(h.lg(id).scopes, s)
	if h.exits[id] == "mw-error" && i == h.c.MwErrAt {
		return errMw
	}
	if h.exits[id] == "scope-closed" && i == h.c.NMw-1 && s != nil {
		// the request's scope is disposed before the handler resolves its controller (a middleware gives
		// up on the request; the request context was cancelled; the provider is shutting down)
		_ = s.Close()
	}
	return nil
}

// method is the controller method body shared by all integrations.
func (h *webHarness) method(ctl *kit.P2, fromCtx godi.Scope, id string) error {
	vsched.Yield("handler")
	h.lg(id).ev("handler")
	h.lg(id).ctl = ctl
	h.lg(id).scopes = append(h.lg(id).scopes, fromCtx)
	switch h.exits[id] {
	case "handler-panic":
		panic("handler panics")
	case "handler-error":
		return errHandler
	}
	return nil
}

type served struct {
	status   int
	panicked any
	err      error
}

type webRouter interface {
	serve(path, id string) served
}

// ---- net/http and chi (plain net/http chain)

type stdRouter struct{ mux *http.ServeMux }

func (r *stdRouter) serve(path, id string) (out served) {
	rec := httptest.NewRecorder()
	req := httptest.NewRequest("GET", path, nil)
	req.Header.Set("X-Req", id)
	p, did := kit.Try(func() { r.mux.ServeHTTP(rec, req) })
	if did {
		out.panicked = p
	}
	out.status = rec.Code
	return
}

func (h *webHarness) buildStd(chi bool) webRouter {
	mux := http.NewServeMux()
	lr := func(r *http.Request) *weblog { return h.lg(r.Header.Get("X-Req")) }
	var mwf func(http.Handler) http.Handler
	scopeOf := func(r *http.Request) godi.Scope { s, _ := godi.FromContext(r.Context()); return s }
	if chi {
		var opts []godichi.Option
		if h.c.CustomErr {
			opts = append(opts, godichi.WithErrorHandler(func(w http.ResponseWriter, r *http.Request, err error) { lr(r).ev("errorHandler"); w.WriteHeader(599) }),
				godichi.WithCloseErrorHandler(func(error) { h.lg("close").ev("closeErrorHandler") }))
		}
		for i := 0; i < h.c.NMw; i++ {
			i := i
			opts = append(opts, godichi.WithMiddleware(func(s godi.Scope, r *http.Request) error { return h.mw(i, s, r.Header.Get("X-Req")) }))
		}
		mwf = godichi.ScopeMiddleware(h.e.Prov, opts...)
		// a second, later-built instance with its own middleware must not influence the first
		other := godichi.ScopeMiddleware(h.e.Prov, godichi.WithMiddleware(func(s godi.Scope, r *http.Request) error { lr(r).ev("mwforeign"); return errMw }), godichi.WithMiddleware(func(s godi.Scope, r *http.Request) error { lr(r).ev("mwforeign2"); return nil }))
		mux.Handle("/other", other(http.HandlerFunc(func(w http.ResponseWriter, r *http.Request) {})))
		var hopts []godichi.HandlerOption
		hopts = append(hopts, godichi.WithPanicRecovery(h.c.Recovery))
		if h.c.CustomHands {
			hopts = append(hopts, godichi.WithPanicHandler(func(w http.ResponseWriter, r *http.Request, v any) { lr(r).ev("panicHandler"); w.WriteHeader(598) }),
				godichi.WithScopeErrorHandler(func(w http.ResponseWriter, r *http.Request, err error) {
					lr(r).ev("scopeErrorHandler")
					w.WriteHeader(597)
				}),
				godichi.WithResolutionErrorHandler(func(w http.ResponseWriter, r *http.Request, err error) {
					lr(r).ev("resolutionErrorHandler")
					w.WriteHeader(596)
				}))
		}
		mux.Handle("/h", mwf(godichi.Handle(func(c *kit.P2, w http.ResponseWriter, r *http.Request) {
			h.method(c, scopeOf(r), r.Header.Get("X-Req"))
		}, hopts...)))
		mux.Handle("/missing", mwf(godichi.Handle(func(c *kit.P5, w http.ResponseWriter, r *http.Request) { lr(r).ev("handler") }, hopts...)))
		mux.Handle("/nomw", godichi.Handle(func(c *kit.P2, w http.ResponseWriter, r *http.Request) { lr(r).ev("handler") }, hopts...))
	} else {
		var opts []godihttp.Option
		if h.c.CustomErr {
			opts = append(opts, godihttp.WithErrorHandler(func(w http.ResponseWriter, r *http.Request, err error) { lr(r).ev("errorHandler"); w.WriteHeader(599) }),
				godihttp.WithCloseErrorHandler(func(error) { h.lg("close").ev("closeErrorHandler") }))
		}
		for i := 0; i < h.c.NMw; i++ {
			i := i
			opts = append(opts, godihttp.WithMiddleware(func(s godi.Scope, r *http.Request) error { return h.mw(i, s, r.Header.Get("X-Req")) }))
		}
		mwf = godihttp.ScopeMiddleware(h.e.Prov, opts...)
		other := godihttp.ScopeMiddleware(h.e.Prov, godihttp.WithMiddleware(func(s godi.Scope, r *http.Request) error { lr(r).ev("mwforeign"); return errMw }), godihttp.WithMiddleware(func(s godi.Scope, r *http.Request) error { lr(r).ev("mwforeign2"); return nil }))
		mux.Handle("/other", other(http.HandlerFunc(func(w http.ResponseWriter, r *http.Request) {})))
		var hopts []godihttp.HandlerOption
		hopts = append(hopts, godihttp.WithPanicRecovery(h.c.Recovery))
		if h.c.CustomHands {
			hopts = append(hopts, godihttp.WithPanicHandler(func(w http.ResponseWriter, r *http.Request, v any) { lr(r).ev("panicHandler"); w.WriteHeader(598) }),
				godihttp.WithScopeErrorHandler(func(w http.ResponseWriter, r *http.Request, err error) {
					lr(r).ev("scopeErrorHandler")
					w.WriteHeader(597)
				}),
				godihttp.WithResolutionErrorHandler(func(w http.ResponseWriter, r *http.Request, err error) {
					lr(r).ev("resolutionErrorHandler")
					w.WriteHeader(596)
				}))
		}
		mux.Handle("/h", mwf(godihttp.Handle(func(c *kit.P2, w http.ResponseWriter, r *http.Request) {
			h.method(c, scopeOf(r), r.Header.Get("X-Req"))
		}, hopts...)))
		mux.Handle("/missing", mwf(godihttp.Handle(func(c *kit.P5, w http.ResponseWriter, r *http.Request) { lr(r).ev("handler") }, hopts...)))
		mux.Handle("/nomw", godihttp.Handle(func(c *kit.P2, w http.ResponseWriter, r *http.Request) { lr(r).ev("handler") }, hopts...))
	}
	rawH := http.HandlerFunc(func(w http.ResponseWriter, r *http.Request) {
		s := scopeOf(r)
		var ctl *kit.P2
		if s != nil {
			ctl, _ = godi.Resolve[*kit.P2](s)
		}
		h.method(ctl, s, r.Header.Get("X-Req"))
	})
	mux.Handle("/raw", mwf(rawH))
	// the scope middleware installed at two nesting levels (e.g. globally and on a route group)
	mux.Handle("/nested", mwf(mwf(rawH)))
	return &stdRouter{mux}
}

// ---- gin

type ginRouter struct{ eng *gin.Engine }

func (r *ginRouter) serve(path, id string) (out served) {
	rec := httptest.NewRecorder()
	req := httptest.NewRequest("GET", path, nil)
	req.Header.Set("X-Req", id)
	p, did := kit.Try(func() { r.eng.ServeHTTP(rec, req) })
	if did {
		out.panicked = p
	}
	out.status = rec.Code
	return
}

func (h *webHarness) buildGin() webRouter {
	gin.SetMode(gin.ReleaseMode)
	eng := gin.New()
	lr := func(c *gin.Context) *weblog { return h.lg(c.GetHeader("X-Req")) }
	var opts []godigin.Option
	if h.c.CustomErr {
		opts = append(opts, godigin.WithErrorHandler(func(c *gin.Context, err error) { lr(c).ev("errorHandler"); c.Status(599) }),
			godigin.WithCloseErrorHandler(func(error) { h.lg("close").ev("closeErrorHandler") }))
	}
	for i := 0; i < h.c.NMw; i++ {
		i := i
		opts = append(opts, godigin.WithMiddleware(func(s godi.Scope, c *gin.Context) error { return h.mw(i, s, c.GetHeader("X-Req")) }))
	}
	mw := godigin.ScopeMiddleware(h.e.Prov, opts...)
	other := godigin.ScopeMiddleware(h.e.Prov, godigin.WithMiddleware(func(s godi.Scope, c *gin.Context) error { lr(c).ev("mwforeign"); return errMw }), godigin.WithMiddleware(func(s godi.Scope, c *gin.Context) error { lr(c).ev("mwforeign2"); return nil }))
	eng.GET("/other", other, func(c *gin.Context) {})
	var hopts []godigin.HandlerOption
	hopts = append(hopts, godigin.WithPanicRecovery(h.c.Recovery))
	if h.c.CustomHands {
		hopts = append(hopts, godigin.WithPanicHandler(func(c *gin.Context, v any) { lr(c).ev("panicHandler"); c.Status(598) }),
			godigin.WithScopeErrorHandler(func(c *gin.Context, err error) { lr(c).ev("scopeErrorHandler"); c.Status(597) }),
			godigin.WithResolutionErrorHandler(func(c *gin.Context, err error) { lr(c).ev("resolutionErrorHandler"); c.Status(596) }))
	}
	scopeOf := func(c *gin.Context) godi.Scope { s, _ := godi.FromContext(c.Request.Context()); return s }
	eng.GET("/h", mw, godigin.Handle(func(ctl *kit.P2, c *gin.Context) { h.method(ctl, scopeOf(c), c.GetHeader("X-Req")) }, hopts...))
	eng.GET("/missing", mw, godigin.Handle(func(ctl *kit.P5, c *gin.Context) { lr(c).ev("handler") }, hopts...))
	eng.GET("/nomw", godigin.Handle(func(ctl *kit.P2, c *gin.Context) { lr(c).ev("handler") }, hopts...))
	rawH := func(c *gin.Context) {
		s := scopeOf(c)
		var ctl *kit.P2
		if s != nil {
			ctl, _ = godi.Resolve[*kit.P2](s)
		}
		h.method(ctl, s, c.GetHeader("X-Req"))
	}
	eng.GET("/raw", mw, rawH)
	eng.GET("/nested", mw, mw, rawH)
	return &ginRouter{eng}
}

// ---- echo

type echoRouter struct{ e *echo.Echo }

func (r *echoRouter) serve(path, id string) (out served) {
	rec := httptest.NewRecorder()
	req := httptest.NewRequest("GET", path, nil)
	req.Header.Set("X-Req", id)
	p, did := kit.Try(func() { r.e.ServeHTTP(rec, req) })
	if did {
		out.panicked = p
	}
	out.status = rec.Code
	return
}

func (h *webHarness) buildEcho() webRouter {
	e := echo.New()
	e.HideBanner = true
	lr := func(c echo.Context) *weblog { return h.lg(c.Request().Header.Get("X-Req")) }
	var opts []godiecho.Option
	if h.c.CustomErr {
		opts = append(opts, godiecho.WithErrorHandler(func(c echo.Context, err error) error { lr(c).ev("errorHandler"); return c.NoContent(599) }),
			godiecho.WithCloseErrorHandler(func(error) { h.lg("close").ev("closeErrorHandler") }))
	}
	for i := 0; i < h.c.NMw; i++ {
		i := i
		opts = append(opts, godiecho.WithMiddleware(func(s godi.Scope, c echo.Context) error { return h.mw(i, s, c.Request().Header.Get("X-Req")) }))
	}
	mw := godiecho.ScopeMiddleware(h.e.Prov, opts...)
	other := godiecho.ScopeMiddleware(h.e.Prov, godiecho.WithMiddleware(func(s godi.Scope, c echo.Context) error { lr(c).ev("mwforeign"); return errMw }), godiecho.WithMiddleware(func(s godi.Scope, c echo.Context) error { lr(c).ev("mwforeign2"); return nil }))
	e.GET("/other", func(c echo.Context) error { return nil }, other)
	var hopts []godiecho.HandlerOption
	hopts = append(hopts, godiecho.WithPanicRecovery(h.c.Recovery))
	if h.c.CustomHands {
		hopts = append(hopts, godiecho.WithPanicHandler(func(c echo.Context, v any) error { lr(c).ev("panicHandler"); return c.NoContent(598) }),
			godiecho.WithScopeErrorHandler(func(c echo.Context, err error) error { lr(c).ev("scopeErrorHandler"); return c.NoContent(597) }),
			godiecho.WithResolutionErrorHandler(func(c echo.Context, err error) error { lr(c).ev("resolutionErrorHandler"); return c.NoContent(596) }))
	}
	scopeOf := func(c echo.Context) godi.Scope { s, _ := godi.FromContext(c.Request().Context()); return s }
	e.GET("/h", godiecho.Handle(func(ctl *kit.P2, c echo.Context) error {
		return h.method(ctl, scopeOf(c), c.Request().Header.Get("X-Req"))
	}, hopts...), mw)
	e.GET("/missing", godiecho.Handle(func(ctl *kit.P5, c echo.Context) error { lr(c).ev("handler"); return nil }, hopts...), mw)
	e.GET("/nomw", godiecho.Handle(func(ctl *kit.P2, c echo.Context) error { lr(c).ev("handler"); return nil }, hopts...))
	rawH := func(c echo.Context) error {
		s := scopeOf(c)
		var ctl *kit.P2
		if s != nil {
			ctl, _ = godi.Resolve[*kit.P2](s)
		}
		return h.method(ctl, s, c.Request().Header.Get("X-Req"))
	}
	e.GET("/raw", rawH, mw)
	e.GET("/nested", rawH, mw, mw)
	return &echoRouter{e}
}

// ---- fiber

type fiberRouter struct{ app *fiber.App }

func (r *fiberRouter) serve(path, id string) (out served) {
	req := httptest.NewRequest("GET", path, nil)
	req.Header.Set("X-Req", id)
	var resp *http.Response
	p, did := kit.Try(func() { resp, out.err = r.app.Test(req, -1) })
	if did {
		out.panicked = p
	}
	if resp != nil {
		out.status = resp.StatusCode
	}
	return
}

func (h *webHarness) buildFiber() webRouter {
	app := fiber.New(fiber.Config{DisableStartupMessage: true})
	// a panic reaching fasthttp would kill the process: fiber's own recover middleware is always outermost
	app.Use(fiberrecover.New())
	lr := func(c *fiber.Ctx) *weblog { return h.lg(c.Get("X-Req")) }
	var opts []godifiber.Option
	if h.c.CustomErr {
		opts = append(opts, godifiber.WithErrorHandler(func(c *fiber.Ctx, err error) error { lr(c).ev("errorHandler"); return c.SendStatus(599) }),
			godifiber.WithCloseErrorHandler(func(error) { h.lg("close").ev("closeErrorHandler") }))
	}
	for i := 0; i < h.c.NMw; i++ {
		i := i
		opts = append(opts, godifiber.WithMiddleware(func(s godi.Scope, c *fiber.Ctx) error { return h.mw(i, s, c.Get("X-Req")) }))
	}
	mw := godifiber.ScopeMiddleware(h.e.Prov, opts...)
	other := godifiber.ScopeMiddleware(h.e.Prov, godifiber.WithMiddleware(func(s godi.Scope, c *fiber.Ctx) error { lr(c).ev("mwforeign"); return errMw }), godifiber.WithMiddleware(func(s godi.Scope, c *fiber.Ctx) error { lr(c).ev("mwforeign2"); return nil }))
	app.Get("/other", other, func(c *fiber.Ctx) error { return nil })
	var hopts []godifiber.HandlerOption
	hopts = append(hopts, godifiber.WithPanicRecovery(h.c.Recovery))
	if h.c.CustomHands {
		hopts = append(hopts, godifiber.WithPanicHandler(func(c *fiber.Ctx, v any) error { lr(c).ev("panicHandler"); return c.SendStatus(598) }),
			godifiber.WithScopeErrorHandler(func(c *fiber.Ctx, err error) error { lr(c).ev("scopeErrorHandler"); return c.SendStatus(597) }),
			godifiber.WithResolutionErrorHandler(func(c *fiber.Ctx, err error) error { lr(c).ev("resolutionErrorHandler"); return c.SendStatus(596) }))
	}
	app.Get("/h", mw, godifiber.Handle(func(ctl *kit.P2, c *fiber.Ctx) error { return h.method(ctl, godifiber.FromContext(c), c.Get("X-Req")) }, hopts...))
	app.Get("/missing", mw, godifiber.Handle(func(ctl *kit.P5, c *fiber.Ctx) error { lr(c).ev("handler"); return nil }, hopts...))
	app.Get("/nomw", godifiber.Handle(func(ctl *kit.P2, c *fiber.Ctx) error { lr(c).ev("handler"); return nil }, hopts...))
	rawH := func(c *fiber.Ctx) error {
		s := godifiber.FromContext(c)
		var ctl *kit.P2
		if s != nil {
			ctl, _ = godi.Resolve[*kit.P2](s)
		}
		// the user context carries the scope as well
		if s2, err := godi.FromContext(c.UserContext()); err != nil || s2 != s {
			lr(c).ev("usercontext-scope-mismatch")
		}
		return h.method(ctl, s, c.Get("X-Req"))
	}
	app.Get("/raw", mw, rawH)
	app.Get("/nested", mw, mw, rawH)
	return &fiberRouter{app}
}

func (h *webHarness) build() webRouter {
	switch h.c.Integ {
	case "http":
		return h.buildStd(false)
	case "chi":
		return h.buildStd(true)
	case "gin":
		return h.buildGin()
	case "echo":
		return h.buildEcho()
	case "fiber":
		return h.buildFiber()
	}
	panic("integ")
}

func pathOf(exit string) string {
	switch exit {
	case "unregistered":
		return "/missing"
	case "no-middleware":
		return "/nomw"
	case "raw":
		return "/raw"
	case "nested":
		return "/nested"
	}
	return "/h"
}

// oneRequest serves one request with the given exit path and judges it.
func (h *webHarness) oneRequest(router webRouter, exit string, reqNo int) []Finding {
	var out []Finding
	e := h.e
	bad := func(clause string, d string) {
		out = append(out, Finding{feat("clause", clause, "integ", h.c.Integ, "exit", exit), fmt.Sprintf("request %d (%s, exit %s): %s", reqNo, h.c.Integ, exit, d)})
	}
	id := fmt.Sprint(reqNo)
	if h.exits == nil {
		h.exits = map[string]string{}
	}
	h.exits[id] = exit
	h.logs = map[string]*weblog{}
	h.log = h.lg(id)
	initCalls := len(e.W.CallsOf(2))
	nInst := len(e.W.Insts)
	if exit == "scope-fail" {
		e.W.Faults[fmt.Sprintf("2:%d", initCalls+1)] = "err"
	}
	res := router.serve(pathOf(exit), id)
	log := h.log
	evs := strings.Join(log.events, ",")
	has := func(ev string) int {
		n := 0
		for _, x := range log.events {
			if x == ev {
				n++
			}
		}
		return n
	}
	// scopes created for this request
	created := len(e.W.CallsOf(2)) - initCalls
	wantScopes := 1
	if exit == "provider-closed" || exit == "no-middleware" {
		wantScopes = 0
	}
	if exit == "nested" {
		// each pass of the middleware may create its own scope (or the inner pass may reuse the outer one)
		if created != 1 && created != 2 {
			bad("scope-count", fmt.Sprintf("%d scopes were created for a request passing the middleware twice (events %s)", created, evs))
		}
	} else if created != wantScopes {
		bad("scope-count", fmt.Sprintf("%d scopes were created for the request, want %d (events %s)", created, wantScopes, evs))
	}
	// which handlers ran
	expectHandler := exit == "ok" || exit == "handler-error" || exit == "handler-panic" || exit == "raw" || exit == "nested"
	if has("handler") != b2i(expectHandler) {
		bad("handler-ran", fmt.Sprintf("handler ran %d times, want %d (events %s)", has("handler"), b2i(expectHandler), evs))
	}
	wantErrH := exit == "mw-error" || exit == "scope-fail" || exit == "provider-closed"
	if h.c.CustomErr {
		if has("errorHandler") != b2i(wantErrH) {
			bad("error-handler", fmt.Sprintf("error handler ran %d times, want %d (events %s)", has("errorHandler"), b2i(wantErrH), evs))
		}
	} else if wantErrH && res.status != 500 {
		bad("error-handler", fmt.Sprintf("default error handler should answer 500, got %d (events %s)", res.status, evs))
	}
	if exit == "scope-closed" {
		// the controller cannot be resolved from a disposed scope: exactly ONE of the two handlers answers
		if h.c.CustomHands {
			if n := has("resolutionErrorHandler") + has("scopeErrorHandler"); n != 1 {
				bad("handle-error-handlers", fmt.Sprintf("%d of the scope-error / resolution-error handlers ran, want exactly one (events %s)", n, evs))
			}
		} else if res.status != 500 {
			bad("default-handle-handler", fmt.Sprintf("default handler should answer 500, got %d", res.status))
		}
	} else if h.c.CustomHands {
		if has("resolutionErrorHandler") != b2i(exit == "unregistered") {
			bad("resolution-error-handler", fmt.Sprintf("ran %d times (events %s)", has("resolutionErrorHandler"), evs))
		}
		if has("scopeErrorHandler") != b2i(exit == "no-middleware") {
			bad("scope-error-handler", fmt.Sprintf("ran %d times (events %s)", has("scopeErrorHandler"), evs))
		}
		if has("panicHandler") != b2i(exit == "handler-panic" && h.c.Recovery) {
			bad("panic-handler", fmt.Sprintf("ran %d times with recovery=%v (events %s)", has("panicHandler"), h.c.Recovery, evs))
		}
	} else {
		if (exit == "unregistered" || exit == "no-middleware") && res.status != 500 {
			bad("default-handle-handler", fmt.Sprintf("default handler should answer 500, got %d", res.status))
		}
	}
	// panics are swallowed only when recovery is enabled (fiber: its own recover middleware is always installed by the harness)
	if exit == "handler-panic" {
		if h.c.Recovery && res.panicked != nil {
			bad("panic-not-recovered", fmt.Sprintf("recovery enabled but the panic escaped: %v", res.panicked))
		}
		if !h.c.Recovery && res.panicked == nil && h.c.Integ != "fiber" {
			bad("panic-swallowed", "recovery disabled but the panic did not reach the caller")
		}
	} else if res.panicked != nil {
		bad("unexpected-panic", fmt.Sprint(res.panicked))
	}
	// middlewares in configuration order, up to the failing one
	wantMw := h.c.NMw
	if exit == "mw-error" {
		wantMw = h.c.MwErrAt + 1
	}
	if wantScopes == 0 || exit == "scope-fail" {
		wantMw = 0
	}
	var gotMw []string
	for _, x := range log.events {
		if strings.HasPrefix(x, "mw") {
			gotMw = append(gotMw, x)
		}
	}
	var expMw []string
	for i := 0; i < wantMw; i++ {
		expMw = append(expMw, fmt.Sprintf("mw%d", i))
	}
	if exit == "nested" {
		expMw = append(expMw, expMw...) // both passes run the configured middlewares
	}
	if strings.Join(gotMw, ",") != strings.Join(expMw, ",") {
		bad("middleware-order", fmt.Sprintf("middlewares ran %v, want %v", gotMw, expMw))
	}
	// everybody saw the same scope; the controller was resolved from it
	var sc godi.Scope
	for _, s := range log.scopes {
		if s == nil {
			bad("scope-not-visible", fmt.Sprintf("a middleware/handler saw no scope (events %s)", evs))
			continue
		}
		if sc == nil {
			sc = s
		} else if s != sc && exit == "nested" {
			// the passes may use different scopes: each scope seen must refuse use afterwards; the handler's is the innermost
			if _, err := sc.Get(kit.TypeOf("D1")); !errors.Is(err, godi.ErrScopeDisposed) {
				bad("scope-open-after-request", fmt.Sprintf("the outer pass' scope still resolves after the request ended (err=%v)", err))
			}
			sc = s
		} else if s != sc {
			bad("different-scopes", fmt.Sprintf("middlewares / handler saw different scopes (%s vs %s)", sc.ID(), s.ID()))
		}
	}
	if log.ctl != nil && sc != nil {
		ok := false
		for _, cl := range e.W.CallsOf(1) {
			for _, in := range cl.Outs {
				if in == kit.InstOf(log.ctl) {
					for _, a := range cl.Args {
						if a.Kind == "scope" && a.Ref == any(sc) {
							ok = true
						}
					}
				}
			}
		}
		if !ok {
			bad("controller-from-other-scope", "the controller handed to the method was not resolved from the request's scope")
		}
	}
	if expectHandler && log.ctl == nil {
		bad("controller-missing", "the handler ran without a controller")
	}
	// when the request has ended: every instance created for it is closed exactly once, the scope refuses use
	for _, in := range e.W.Insts[nInst:] {
		if in.Disp && in.Reg != 3 && len(in.Closes) != 1 {
			bad("request-instance-close-count", fmt.Sprintf("%s created for the request was closed %d times when the request had ended", in.Label(), len(in.Closes)))
		}
	}
	if sc != nil {
		if _, err := sc.Get(kit.TypeOf("D1")); !errors.Is(err, godi.ErrScopeDisposed) {
			bad("scope-open-after-request", fmt.Sprintf("the request's scope still resolves after the request ended (err=%v)", err))
		}
	}
	if len(h.lg("close").events) > 0 {
		bad("close-error", "close error handler ran although no Close failed")
	}
	return out
}

func b2i(b bool) int {
	if b {
		return 1
	}
	return 0
}

func webRun(c webCase) (fs []Finding, summary string) {
	spec := webSpec()
	e := NewEnv(&spec)
	e.Build()
	if e.Prov == nil {
		return []Finding{{feat("clause", "build-failed"), fmt.Sprint(e.BuildErr)}}, "build-failed"
	}
	h := &webHarness{e: e, c: c}
	router := h.build()
	if c.Exit == "provider-closed" {
		e.Prov.Close()
	}
	fs = append(fs, h.oneRequest(router, c.Exit, 1)...)
	summary = strings.Join(h.log.events, ",")
	var first godi.Scope
	if len(h.log.scopes) > 0 {
		first = h.log.scopes[0]
	}
	if c.Exit2 != "" && c.Exit != "provider-closed" {
		if c.Exit2 == "provider-closed" {
			e.Prov.Close()
		}
		fs = append(fs, h.oneRequest(router, c.Exit2, 2)...)
		summary += " | " + strings.Join(h.log.events, ",")
		if len(h.log.scopes) > 0 && first != nil && h.log.scopes[0] == first {
			fs = append(fs, Finding{feat("clause", "scope-reused-across-requests", "integ", c.Integ), "the second request saw the first request's scope"})
		}
	}
	vsched.Settle()
	e.Prov.Close()
	vsched.Settle()
	for _, in := range e.W.Insts {
		if in.Disp && len(in.Closes) != 1 {
			fs = append(fs, Finding{feat("clause", "instance-close-count-at-end", "integ", c.Integ, "exit", c.Exit), fmt.Sprintf("%s closed %d times after provider close", in.Label(), len(in.Closes))})
		}
	}
	return
}

var webExits = []string{"ok", "raw", "nested", "mw-error", "handler-error", "handler-panic", "scope-fail", "provider-closed", "unregistered", "no-middleware", "scope-closed"}

func webCases(integ string) []webCase {
	var out []webCase
	for _, customErr := range []bool{false, true} {
		for _, customHands := range []bool{false, true} {
			for _, recovery := range []bool{false, true} {
				for nmw := 0; nmw <= 2; nmw++ {
					for _, exit := range webExits {
						if exit == "handler-error" && (integ == "http" || integ == "chi" || integ == "gin") {
							continue // handlers of these integrations have no error result
						}
						if exit == "scope-closed" && nmw == 0 {
							continue // it is the last configured middleware that closes the scope
						}
						if exit == "mw-error" {
							for at := 0; at < nmw; at++ {
								out = append(out, webCase{Integ: integ, CustomErr: customErr, NMw: nmw, MwErrAt: at, Recovery: recovery, CustomHands: customHands, Exit: exit})
							}
							continue
						}
						out = append(out, webCase{Integ: integ, CustomErr: customErr, NMw: nmw, MwErrAt: -1, Recovery: recovery, CustomHands: customHands, Exit: exit})
					}
				}
			}
		}
	}
	// every ordered pair of exit paths as a two-request sequence (state carried by pooled contexts)
	for _, a := range webExits {
		for _, b := range webExits {
			if (a == "handler-error" || b == "handler-error") && (integ == "http" || integ == "chi" || integ == "gin") {
				continue
			}
			c := webCase{Integ: integ, CustomErr: true, NMw: 2, MwErrAt: 1, Recovery: true, CustomHands: true, Exit: a, Exit2: b}
			out = append(out, c)
		}
	}
	return out
}

func c16Seq(r *mc.Report, integ string) {
	run := func(c webCase) {
		var fs []Finding
		var sum string
		s := seqOnce(func() { fs, sum = webRun(c) })
		r.Executions++
		r.Validated++
		r.States++
		r.Transitions += 2
		r.Outcome(fmt.Sprintf("%s %s/%s | %s", c.Integ, c.Exit, c.Exit2, sum))
		fs = append(fs, genericFindings(nil, s)...)
		for _, f := range fs {
			if _, ok := f.F["integ"]; !ok {
				f.F["integ"] = c.Integ
			}
			f.F["custom-error-handler"] = fmt.Sprint(c.CustomErr)
			r.Violate(f.F, f.Detail+fmt.Sprintf("\n  case %+v", c), c)
		}
		if len(r.Samples) < 2 && c.Exit == "mw-error" {
			r.Sample(map[string]any{"case": c, "events": sum})
		}
	}
	if r.Only != nil {
		var c webCase
		if json.Unmarshal(r.Only, &c) == nil && c.Integ == integ && c.Exit != "" {
			run(c)
		}
		return
	}
	for _, c := range webCases(integ) {
		run(c)
	}
}

// concurrent requests through one router (net/http, chi, gin, echo)
type webConcCase struct {
	Integ   string   `json:"integ"`
	Exits   []string `json:"exits"`
	Choices []int    `json:"choices"`
}

func c16Conc(r *mc.Report, integ string, exits []string, pb int) {
	c := webCase{Integ: integ, CustomErr: true, NMw: 1, MwErrAt: 0, Recovery: true, CustomHands: true}
	var fs []Finding
	var sum string
	body := func() {
		fs = nil
		spec := webSpec()
		e := NewEnv(&spec)
		e.Build()
		// ONE router (one middleware instance, one handler instance) shared by all concurrent requests
		h := &webHarness{e: e, c: c, exits: map[string]string{}, logs: map[string]*weblog{}}
		router := h.build()
		for i := range exits {
			h.exits[fmt.Sprint(i+1)] = exits[i]
			h.lg(fmt.Sprint(i + 1))
		}
		var handles []*vsched.Handle
		res := make([][]Finding, len(exits))
		for i := range exits {
			i := i
			handles = append(handles, vsched.Go(func() { res[i] = h.oneRequestConc(router, exits[i], i+1) }))
		}
		for _, hd := range handles {
			vsched.Join(hd)
		}
		for i := range res {
			fs = append(fs, res[i]...)
		}
		hs := make([]*weblog, len(exits))
		for i := range exits {
			hs[i] = h.lg(fmt.Sprint(i + 1))
		}
		// scoped probe instances of concurrent requests are distinct
		seen := map[*kit.Inst]int{}
		for i, l := range hs {
			if l != nil && l.ctl != nil {
				in := kit.InstOf(l.ctl)
				if j, dup := seen[in]; dup {
					fs = append(fs, Finding{feat("clause", "controller-shared-between-requests", "integ", integ), fmt.Sprintf("requests %d and %d got the same scoped controller %s", j+1, i+1, in.Label())})
				}
				seen[in] = i
				for _, a := range in.Call.Args {
					if a.Kind == "inst" {
						if j, dup := seen[a.Inst]; dup && j != i {
							fs = append(fs, Finding{feat("clause", "scoped-instance-shared-between-requests", "integ", integ), fmt.Sprintf("requests share scoped instance %s", a.Inst.Label())})
						}
						seen[a.Inst] = i
					}
				}
			}
		}
		vsched.Settle()
		e.Prov.Close()
		vsched.Settle()
		for _, in := range e.W.Insts {
			if in.Disp && len(in.Closes) != 1 {
				fs = append(fs, Finding{feat("clause", "instance-close-count-at-end", "integ", integ), fmt.Sprintf("%s closed %d times", in.Label(), len(in.Closes))})
			}
		}
		sum = ""
		for _, l := range hs {
			if l != nil {
				sum += strings.Join(l.events, ",") + " | "
			}
		}
	}
	if r.Only != nil {
		var cc webConcCase
		if json.Unmarshal(r.Only, &cc) == nil && cc.Integ == integ && strings.Join(cc.Exits, ",") == strings.Join(exits, ",") {
			s := mc.RunOne(cc.Choices, mc.Bounds{Preempt: pb}, body)
			fs = append(fs, genericFindings(nil, s)...)
			for _, f := range fs {
				r.Violate(f.F, f.Detail, cc)
			}
		}
		return
	}
	st := mc.Explore(mc.Bounds{Preempt: pb, Deadline: r.Deadline}, body, func(s *vsched.Sched, cost [2]int) bool {
		r.Outcome(fmt.Sprintf("conc %s %v | %s", integ, exits, sum))
		all := append(append([]Finding{}, fs...), genericFindings(nil, s)...)
		for _, f := range all {
			if _, ok := f.F["integ"]; !ok {
				f.F["integ"] = integ
			}
			r.Violate(f.F, f.Detail+fmt.Sprintf("\n  concurrent requests %v through %s, choices %v", exits, integ, s.Choices()), webConcCase{Integ: integ, Exits: exits, Choices: s.Choices()})
		}
		return true
	})
	r.AddStats(st)
	r.Sample(map[string]any{"integ": integ, "concurrent_exits": exits, "schedules": st.Executions})
}

// oneRequestConc is oneRequest without the counters that are global to the
// provider (scope count per request is judged through the harness-local log).
func (h *webHarness) oneRequestConc(router webRouter, exit string, reqNo int) []Finding {
	var out []Finding
	bad := func(clause string, d string) {
		out = append(out, Finding{feat("clause", clause, "integ", h.c.Integ, "exit", exit), fmt.Sprintf("concurrent request %d (%s, exit %s): %s", reqNo, h.c.Integ, exit, d)})
	}
	id := fmt.Sprint(reqNo)
	res := router.serve(pathOf(exit), id)
	log := h.lg(id)
	evs := strings.Join(log.events, ",")
	expectHandler := exit == "ok" || exit == "handler-error" || exit == "handler-panic" || exit == "raw" || exit == "nested"
	n := 0
	for _, x := range log.events {
		if x == "handler" {
			n++
		}
	}
	if n != b2i(expectHandler) {
		bad("handler-ran", fmt.Sprintf("handler ran %d times (events %s)", n, evs))
	}
	if res.panicked != nil {
		bad("unexpected-panic", fmt.Sprint(res.panicked))
	}
	var sc godi.Scope
	for _, s := range log.scopes {
		if s == nil {
			bad("scope-not-visible", evs)
			continue
		}
		if sc == nil {
			sc = s
		} else if s != sc && exit == "nested" {
			// the passes may use different scopes: each scope seen must refuse use afterwards; the handler's is the innermost
			if _, err := sc.Get(kit.TypeOf("D1")); !errors.Is(err, godi.ErrScopeDisposed) {
				bad("scope-open-after-request", fmt.Sprintf("the outer pass' scope still resolves after the request ended (err=%v)", err))
			}
			sc = s
		} else if s != sc {
			bad("different-scopes", "middleware and handler saw different scopes")
		}
	}
	if sc != nil {
		if _, err := sc.Get(kit.TypeOf("D1")); !errors.Is(err, godi.ErrScopeDisposed) {
			bad("scope-open-after-request", fmt.Sprintf("err=%v", err))
		}
	}
	if log.ctl != nil {
		in := kit.InstOf(log.ctl)
		for _, a := range in.Call.Args {
			if a.Kind == "scope" && a.Ref != any(sc) {
				bad("controller-from-other-scope", "controller resolved from a different scope than the one in the request context")
			}
			if a.Kind == "inst" && len(a.Inst.Closes) != 1 {
				bad("request-instance-close-count", fmt.Sprintf("%s closed %d times when the request had ended", a.Inst.Label(), len(a.Inst.Closes)))
			}
		}
	}
	return out
}

func init() {
	mc.Register(&mc.Check{
		Prop:        "C16",
		Rule:        "sequential: for each of net/http, chi (plain net/http chain), gin, echo, fiber: every combination of {default / custom error + close-error handlers} x {default / custom Handle handlers} x {recovery on / off} x {0, 1, 2 configured middlewares} x exit path {ok via Handle, ok via a raw handler using FromContext, middleware error at every position, handler error (echo, fiber), handler panic, scope-creation failure (failing initializer), provider closed, controller unregistered, route without the middleware}, plus every ordered pair of exit paths as a two-request sequence on one router (pooled contexts); concurrent: two requests through one provider in two goroutines for http / chi / gin / echo, every schedule with <=2 preemptions (godi's synchronisation points and user callbacks; framework internals run atomically). A second, later-built ScopeMiddleware instance with different middlewares exists on every router and must not influence the first. Oracle per request: scopes created, which of handler / error / scope-error / resolution-error / panic handlers ran, middleware order, one and the same scope seen by all, controller resolved from it, every instance created for the request closed exactly once and the scope refusing use when the request has ended, panics swallowed iff recovery is enabled. distinct = canonical event strings. Exit path scope-closed: the last configured middleware closes the request scope before the handler resolves its controller - exactly one of the scope-error / resolution-error handlers answers.",
		Assume:      []string{"fiber is always run behind fiber's own recover middleware (a panic reaching fasthttp would kill the process) and via app.Test", "go-chi itself is not a dependency of the chi adapter; it is driven with a plain net/http chain"},
		MinOutcomes: 10,
		Jobs: func(tier string) []mc.Job {
			var jobs []mc.Job
			for _, integ := range []string{"http", "chi", "gin", "echo", "fiber"} {
				integ := integ
				jobs = append(jobs, mc.Job{Name: "c16-seq/" + integ, Weight: 5, Run: func(r *mc.Report) { c16Seq(r, integ) }})
			}
			pb := 2
			if tier == "thorough" {
				pb = 3
			}
			for _, integ := range []string{"http", "chi", "gin", "echo", "fiber"} {
				for _, ex := range [][]string{{"ok", "ok"}, {"ok", "mw-error"}, {"raw", "handler-panic"}, {"ok", "unregistered"}} {
					integ, ex := integ, ex
					jobs = append(jobs, mc.Job{Name: fmt.Sprintf("c16-conc/%s/%s", integ, strings.Join(ex, "+")), Weight: 20, Run: func(r *mc.Report) { c16Conc(r, integ, ex, pb) }})
				}
			}
			return jobs
		},
	})
}
