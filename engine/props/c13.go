package props

import (
	"fmt"
	"strings"

	"github.com/junioryono/godi/v4/internal/vsched"
	"github.com/junioryono/godi/v4/verifmc/kit"
	"github.com/junioryono/godi/v4/verifmc/mc"
)

// C13 — closed means closed: cascading close and refusal of later use.

func c13SeqOracle(e *Env, s *vsched.Sched, h []Op) []Finding {
	var out []Finding
	if e.Prov == nil {
		return []Finding{{feat("clause", "build-failed"), fmt.Sprint(e.BuildErr)}}
	}
	cm := closedModel(e.Results)
	for _, r := range e.Results {
		if r.Skipped || r.Panic != nil {
			continue
		}
		switch r.Op.Kind {
		case "get", "group", "scope":
			want := "scope-disposed"
			if r.Op.Scope == "" {
				want = "provider-disposed"
			}
			if cm[r] {
				if r.Err == nil {
					out = append(out, Finding{feat("clause", "use-after-close-succeeded", "op", r.Op.Kind, "target", tgtKind(r.Op)),
						fmt.Sprintf("%s succeeded (%s) although its target was closed before", r.Op, r.Label)})
				} else if !strings.Contains(r.Class, want) {
					out = append(out, Finding{feat("clause", "wrong-error-after-close", "op", r.Op.Kind, "target", tgtKind(r.Op), "class", r.Class),
						fmt.Sprintf("%s on a closed target returned %q, want the %s error", r.Op, r.Err, want)})
				}
			} else if r.Err != nil {
				out = append(out, Finding{feat("clause", "open-target-refused", "op", r.Op.Kind, "class", r.Class),
					fmt.Sprintf("%s on an open target failed: %v", r.Op, r.Err)})
			}
		case "close":
			if cm[r] && r.Err != nil {
				out = append(out, Finding{feat("clause", "second-close-error"), fmt.Sprintf("%s (already closed) returned %v", r.Op, r.Err)})
			}
		}
	}
	// after a cancel (+settle) the scope's own context must be done
	for name, sr := range e.Scopes {
		if sr.S == nil {
			continue
		}
		closedNow := false
		for _, r := range e.Results {
			if cm[r] && r.Op.Scope == name {
				closedNow = true
			}
		}
		_ = closedNow
	}
	if len(s.Leaked) > 0 && e.provClosed() {
		out = append(out, Finding{feat("clause", "watcher-alive-after-provider-close"), fmt.Sprintf("goroutines still waiting after provider close: %v", s.Leaked)})
	}
	return out
}

func (e *Env) provClosed() bool {
	for _, r := range e.Results {
		if r.Op.Kind == "close" && r.Op.Scope == "" && !r.Skipped {
			return true
		}
	}
	return false
}

func tgtKind(o Op) string {
	if o.Scope == "" {
		return "provider"
	}
	return "scope"
}

// overlapping part: one closer || one in-flight operation

type c13Pair struct {
	closer string
	op     string
}

func c13Scenario(closer, op string, withInit bool) *Scenario {
	sc := &Scenario{Name: fmt.Sprintf("close-vs-op/%s/%s/init=%v", closer, op, withInit), Spec: mixSpec(withInit)}
	sc.Setup = []Op{{Kind: "scope", Bind: "s0"}, {Kind: "scope", Scope: "s0", Bind: "s1", Ctx: "cancel"}}
	var c Op
	switch closer {
	case "close-scope":
		c = Op{Kind: "close", Scope: "s1"}
	case "close-ancestor":
		c = Op{Kind: "close", Scope: "s0"}
	case "close-provider":
		c = Op{Kind: "close", Scope: ""}
	case "cancel":
		c = Op{Kind: "cancel", Scope: "s1"}
	}
	var o Op
	switch op {
	case "get-scoped":
		o = Op{Kind: "get", Scope: "s1", T: "D1"}
	case "get-transient":
		o = Op{Kind: "get", Scope: "s1", T: "D2"}
	case "get-group":
		o = Op{Kind: "group", Scope: "s1", T: "D3", Group: "g"}
	case "get-keyed":
		o = Op{Kind: "get", Scope: "s1", T: "P5", Key: "k"}
	case "create-child":
		o = Op{Kind: "scope", Scope: "s1", Bind: "c1"}
	case "provider-create-scope":
		o = Op{Kind: "scope", Scope: "", Bind: "c1"}
	case "provider-get":
		o = Op{Kind: "get", Scope: "", T: "D1"}
	}
	sc.Threads = [][]Op{{c}, {o}}
	sc.Final = []Op{{Kind: "settle"}, {Kind: "get", Scope: "s1", T: "D1"}, {Kind: "scope", Scope: "s1", Bind: "c2"}, {Kind: "get", Scope: "c1", T: "D1"}}
	if closer == "close-provider" {
		sc.Final = append(sc.Final, Op{Kind: "get", Scope: "", T: "D0"}, Op{Kind: "scope", Scope: "", Bind: "c3"})
	}
	sc.Final = append(sc.Final, Op{Kind: "close", Scope: ""}, Op{Kind: "settle"})
	return sc
}

func c13OverlapOracle(e *Env, s *vsched.Sched) []Finding {
	var out []Finding
	if e.Prov == nil {
		return []Finding{{feat("clause", "build-failed"), fmt.Sprint(e.BuildErr)}}
	}
	nThreadOps := 0
	for _, r := range e.Results {
		if r.Thread != 0 {
			nThreadOps++
		}
	}
	var closer, inflight *Res
	for _, r := range e.Results {
		if r.Thread == 0 {
			continue
		}
		if r.Op.Kind == "close" || r.Op.Kind == "cancel" {
			closer = r
		} else {
			inflight = r
		}
	}
	if inflight != nil && inflight.Panic == nil && inflight.Err != nil && !strings.Contains(inflight.Class, "disposed") {
		out = append(out, Finding{feat("clause", "overlap-wrong-error-class", "op", inflight.Op.Kind, "class", inflight.Class),
			fmt.Sprintf("%s overlapping %s failed with %q, which is neither a normal result nor the disposed error", inflight.Op, closer.Op, inflight.Err)})
	}
	if closer != nil && closer.Err != nil {
		out = append(out, Finding{feat("clause", "close-returned-error"), fmt.Sprintf("%s returned %v", closer.Op, closer.Err)})
	}
	// afterwards everything under the closed target refuses use
	seenSettle := false
	for _, r := range e.Results {
		if r.Thread != 0 || r.Skipped {
			continue
		}
		if r.Op.Kind == "settle" {
			seenSettle = true
			continue
		}
		if !seenSettle || r.Panic != nil {
			continue
		}
		if r.Op.Kind == "close" {
			continue
		}
		// is the target expected to be closed?
		closerKind := ""
		if closer != nil {
			closerKind = closer.Op.Kind + ":" + closer.Op.Scope
		}
		expectClosed := false
		switch r.Op.Scope {
		case "s1":
			expectClosed = true
		case "c1":
			// c1 is a child of s1 (create-child) or a provider scope (provider-create-scope)
			if sr := e.Scopes["c1"]; sr != nil {
				expectClosed = sr.Parent == "s1" || closerKind == "close:"
			}
		case "":
			expectClosed = closerKind == "close:"
		}
		if !expectClosed {
			continue
		}
		want := "scope-disposed"
		if r.Op.Scope == "" {
			want = "provider-disposed"
		}
		if r.Err == nil {
			clause := "use-after-close-succeeded"
			if r.Op.Scope == "c1" {
				clause = "live-descendant-after-close"
			}
			out = append(out, Finding{feat("clause", clause, "op", r.Op.Kind, "target", tgtKind(r.Op)),
				fmt.Sprintf("after %s returned, %s still succeeded (%s)", closer.Op, r.Op, r.Label)})
		} else if !strings.Contains(r.Class, want) {
			out = append(out, Finding{feat("clause", "wrong-error-after-close", "op", r.Op.Kind, "class", r.Class),
				fmt.Sprintf("after %s returned, %s returned %q, want %s", closer.Op, r.Op, r.Err, want)})
		}
	}
	if len(s.Leaked) > 0 {
		out = append(out, Finding{feat("clause", "watcher-alive-after-provider-close"), fmt.Sprintf("goroutines still waiting after provider close: %v", s.Leaked)})
	}
	return out
}

// returnedCloseOracle is the statement itself, on stamps: once a Close (of a scope, an ancestor
// or the provider) has RETURNED, every operation that STARTS afterwards on that scope or a
// descendant fails with the disposed error - whichever thread issued either of them.
func returnedCloseOracle(e *Env) []Finding {
	var out []Finding
	for _, c := range e.Results {
		if c.Op.Kind != "close" || c.Skipped || c.Panic != nil {
			continue
		}
		for _, r := range e.Results {
			if r.Skipped || r.Panic != nil || r.Start <= c.End {
				continue
			}
			if r.Op.Kind != "get" && r.Op.Kind != "group" && r.Op.Kind != "scope" {
				continue
			}
			under := c.Op.Scope == "" || r.Op.Scope == c.Op.Scope
			if !under && !overlapped(e, c) {
				// descendants: "closing a scope closes all its descendants" speaks of the Close that does the
				// closing; a Close call that lost against another one still in progress returns early
				for _, a := range e.ancestors(r.Op.Scope) {
					if a == c.Op.Scope && a != "" {
						under = true
					}
				}
			}
			if !under {
				continue
			}
			if r.Err == nil {
				out = append(out, Finding{feat("clause", "use-after-returned-close", "op", r.Op.Kind, "closed", tgtKind(c.Op), "target", tgtKind(r.Op)),
					fmt.Sprintf("%s (thread %d) had returned, yet the later %s (thread %d) succeeded (%s)", c.Op, c.Thread, r.Op, r.Thread, r.Label)})
			} else if !strings.Contains(r.Class, "disposed") {
				out = append(out, Finding{feat("clause", "wrong-error-after-close", "op", r.Op.Kind, "class", r.Class),
					fmt.Sprintf("%s had returned; the later %s returned %q, want a disposed error", c.Op, r.Op, r.Err)})
			}
		}
	}
	return out
}

// overlapped reports whether another Close / cancel of the same scope, an ancestor or the provider
// was in progress at some time during c.
func overlapped(e *Env, c *Res) bool {
	chain := map[string]bool{"": true}
	for _, a := range e.ancestors(c.Op.Scope) {
		chain[a] = true
	}
	for _, o := range e.Results {
		if o == c || o.Skipped || (o.Op.Kind != "close" && o.Op.Kind != "cancel") || !chain[o.Op.Scope] {
			continue
		}
		if o.Op.Kind == "cancel" {
			if o.Start < c.End {
				return true // the watcher's Close may be running at any time after the cancel
			}
			continue
		}
		if o.Start < c.End && c.Start < o.End {
			return true
		}
	}
	return false
}

// c13CascadeScenarios: two closers whose cascades overlap (a user Close method yields inside the
// first cascade), then use of the scopes the first cascade has not reached yet.
func c13CascadeScenarios() []*Scenario {
	setup := []Op{{Kind: "scope", Bind: "s0"}, {Kind: "scope", Scope: "s0", Bind: "a", Ctx: ""}, {Kind: "scope", Scope: "s0", Bind: "b", Ctx: ""},
		{Kind: "get", Scope: "a", T: "D1"}, {Kind: "get", Scope: "b", T: "D1"}}
	after := func(sc string) []Op {
		return []Op{{Kind: "get", Scope: "a", T: "D1"}, {Kind: "get", Scope: "b", T: "D1"}, {Kind: "scope", Scope: "b", Bind: "n" + sc}, {Kind: "get", Scope: "s0", T: "D1"}}
	}
	final := []Op{{Kind: "settle"}, {Kind: "close", Scope: ""}, {Kind: "settle"}}
	mk := func(name string, t1, t2 []Op) *Scenario {
		return &Scenario{Name: "close-cascades/" + name, Spec: mixSpec(false), Setup: setup, Threads: [][]Op{t1, t2}, Final: final}
	}
	// provider.Close parked inside a user Close of one top-level scope while a child is created under ANOTHER
	// top-level scope the close loop has not reached yet
	other := &Scenario{Name: "close-cascades/provider-vs-child-of-other-scope", Spec: mixSpec(false),
		Setup:   []Op{{Kind: "scope", Bind: "s0"}, {Kind: "scope", Bind: "s2"}, {Kind: "get", Scope: "s0", T: "D1"}, {Kind: "get", Scope: "s2", T: "D1"}},
		Threads: [][]Op{{{Kind: "close", Scope: ""}}, {{Kind: "scope", Scope: "s2", Bind: "c1"}, {Kind: "get", Scope: "c1", T: "D1"}, {Kind: "scope", Scope: "s0", Bind: "c2"}}}, Final: final}
	return []*Scenario{
		other,
		mk("parent-vs-provider", []Op{{Kind: "close", Scope: "s0"}}, append([]Op{{Kind: "close", Scope: ""}}, after("1")...)),
		mk("parent-vs-parent", []Op{{Kind: "close", Scope: "s0"}}, append([]Op{{Kind: "close", Scope: "s0"}}, after("2")...)),
		mk("provider-vs-parent", []Op{{Kind: "close", Scope: ""}}, append([]Op{{Kind: "close", Scope: "s0"}}, after("3")...)),
		mk("child-vs-provider", []Op{{Kind: "close", Scope: "a"}}, append([]Op{{Kind: "close", Scope: ""}}, after("4")...)),
	}
}

func c13HistCfg(tier string) []*histCfg {
	depth := 4
	if tier == "thorough" {
		depth = 5
	}
	probes := []Op{{Kind: "get", T: "D1"}, {Kind: "get", T: "P5", Key: "k"}, {Kind: "group", T: "D3", Group: "g"}}
	return []*histCfg{
		{Name: "c13-hist/mix", Spec: mixSpec(false), Probes: probes, MaxScopes: 3, Depth: depth, CtxKinds: []string{"cancel", "nil", "pcancel"}, Oracle: c13SeqOracle},
		{Name: "c13-hist/mix-init", Spec: mixSpec(true), Probes: probes[:1], MaxScopes: 3, Depth: depth, CtxKinds: []string{"cancel"}, Oracle: c13SeqOracle},
	}
}

func init() {
	mc.Register(&mc.Check{
		Prop:        "C13",
		Rule:        "sequential: every history over {CreateScope(provider|scope, cancellable | inherited | cancellable-derived-from-the-parent-scope's-context ctx), Get, GetKeyed, GetGroup, Close(scope|provider), cancel} up to the depth bound, each operation compared with the closed-means-closed model; overlapping: every schedule (preemption bound 2 quick / 3 thorough) of one closer || one in-flight operation, then retries on every closed object (also with the late instance's own Close failing); two overlapping cascades (Close(parent) || Close(provider), Close(parent) x2, Close(child) || Close(provider)) followed by use of every scope by the thread whose Close returned, judged on stamps: once a Close has returned, every operation starting later on that scope - and, for a provider Close or a scope Close that did not overlap another Close of its chain, on every descendant - fails with the disposed error. A disposable whose Close waits for the other goroutine's in-flight operation (in the scope, its parent, or a singleton) x closers x operations: no deadlock. In-flight constructions with optional / group fields on disposables: never a half-initialised result. An outcome is the canonical observation string of one execution. Two providers built from one collection: every history to depth 4 (5) over {use p1, use p2, close p1, close p2}: a closed provider refuses use, the other one stays fully usable.",
		Assume:      []string{"sequentially consistent interleavings at synchronisation granularity (justified by the race detector's silence)", "context cancellation is observed by the watcher goroutine as a scheduler-visible blocking operation"},
		MinOutcomes: 10,
		Jobs: func(tier string) []mc.Job {
			var jobs []mc.Job
			pb := 2
			if tier == "thorough" {
				pb = 3
			}
			for _, closer := range []string{"close-scope", "close-ancestor", "close-provider", "cancel"} {
				for _, op := range []string{"get-scoped", "get-transient", "get-group", "get-keyed", "create-child", "provider-create-scope", "provider-get"} {
					if strings.HasPrefix(op, "provider-") && closer != "close-provider" {
						continue
					}
					for _, wi := range []bool{false, true} {
						sc := c13Scenario(closer, op, wi)
						jobs = append(jobs, mc.Job{Name: sc.Name, Run: func(r *mc.Report) {
							exploreScenario(r, sc, mc.Bounds{Preempt: pb}, c13OverlapOracle)
						}})
					}
				}
			}
			for _, c := range c13HistCfg(tier) {
				jobs = append(jobs, c.jobs()...)
			}
			for _, sc := range c13CascadeScenarios() {
				sc := sc
				jobs = append(jobs, mc.Job{Name: sc.Name, Weight: 30, Run: func(r *mc.Report) {
					exploreScenario(r, sc, mc.Bounds{Preempt: pb}, func(e *Env, s *vsched.Sched) []Finding { return returnedCloseOracle(e) })
				}})
			}
			// a resolution overlapping Close whose late instance fails ITS Close: still the disposed error
			for _, closer := range []string{"close-scope", "close-provider", "cancel"} {
				for _, op := range []string{"get-scoped", "get-transient", "get-group"} {
					sc := c13Scenario(closer, op, false)
					sc.Name = strings.Replace(sc.Name, "close-vs-op/", "close-vs-op-closefail/", 1)
					sc.CloseFail = []string{"r1#1.0", "r1#2.0", "r2#1.0", "r2#2.0", "r3#1.0", "r4#1.0"}
					jobs = append(jobs, mc.Job{Name: sc.Name, Run: func(r *mc.Report) {
						exploreScenario(r, sc, mc.Bounds{Preempt: pb}, func(e *Env, s *vsched.Sched) []Finding {
							var keep []Finding
							for _, f := range c13OverlapOracle(e, s) {
								if f.F["clause"] != "close-returned-error" { // Close does report the failing instances here
									keep = append(keep, f)
								}
							}
							return keep
						})
					}})
				}
			}
			// a disposable whose Close method waits for whatever the other goroutine is doing on the scope
			// right now (a worker joining its background job): the in-flight operation must still finish
			for _, closer := range []string{"close-scope", "close-ancestor", "close-provider", "cancel"} {
				for _, op := range []string{"get-scoped", "get-transient", "get-group", "create-child"} {
					for _, where := range []string{"s1", "s0", "singleton"} {
						if where == "s0" && closer != "close-ancestor" && closer != "close-provider" {
							continue
						}
						if where == "singleton" && closer != "close-provider" {
							continue
						}
						sc := c13Scenario(closer, op, false)
						sc.Name = strings.Replace(sc.Name, "close-vs-op/", "close-vs-op-joining-worker-"+where+"/", 1)
						if where == "singleton" {
							sc.Spec.Regs = append(sc.Spec.Regs, kit.Reg{ID: 8, Life: "singleton", Outs: []kit.Out{{T: "D4"}}, CloseJoins: true})
						} else {
							sc.Spec.Regs = append(sc.Spec.Regs, kit.Reg{ID: 8, Life: "scoped", Outs: []kit.Out{{T: "D4"}}, CloseJoins: true})
							sc.Setup = append(sc.Setup, Op{Kind: "get", Scope: where, T: "D4"})
						}
						jobs = append(jobs, mc.Job{Name: sc.Name, Run: func(r *mc.Report) {
							exploreScenario(r, sc, mc.Bounds{Preempt: pb}, c13OverlapOracle)
						}})
					}
				}
			}
			// "never returns a half-initialised result": the in-flight operation builds a consumer whose
			// dependencies are OPTIONAL parameter-object fields (plain and group) of registered disposables that are
			// constructed while the Close drains the scope - it either gets them or fails with the disposed error
			for _, closer := range []string{"close-scope", "close-ancestor", "close-provider", "cancel"} {
				for _, life := range []string{"scoped", "transient"} {
					sc := c13Scenario(closer, "get-scoped", false)
					sc.Name = fmt.Sprintf("close-vs-op-optional-fields/%s/%s", closer, life)
					deps := []kit.Dep{{T: "D2", Opt: true}}
					if life == "scoped" {
						deps = append(deps, kit.Dep{T: "D1", Opt: true}, kit.Dep{T: "D3", Group: "g"})
					}
					sc.Spec.Regs = append(sc.Spec.Regs, kit.Reg{ID: 8, Life: life, In: true, Outs: []kit.Out{{T: "P3"}}, Deps: deps})
					sc.Threads[1] = []Op{{Kind: "get", Scope: "s1", T: "P3"}}
					om := NewModel(&sc.Spec)
					jobs = append(jobs, mc.Job{Name: sc.Name, Run: func(r *mc.Report) {
						exploreScenario(r, sc, mc.Bounds{Preempt: pb}, func(e *Env, s *vsched.Sched) []Finding {
							fs := c13OverlapOracle(e, s)
							if e.Prov == nil {
								return fs
							}
							for _, f := range e.WiringOracle(om) {
								if f.F["clause"] == "wrong-argument" {
									f.F["clause"] = "half-initialised-result"
									fs = append(fs, f)
								}
							}
							return fs
						})
					}})
				}
			}
			jobs = append(jobs, twoProvJob("C13", depth4(tier)))
			return jobs
		},
	})
}
