module github.com/junioryono/godi/v4/verifmc

go 1.24.6

require (
	github.com/junioryono/godi/v4 v4.0.0
	github.com/junioryono/godi/v4/chi v0.0.0
	github.com/junioryono/godi/v4/echo v0.0.0
	github.com/junioryono/godi/v4/fiber v0.0.0
	github.com/junioryono/godi/v4/gin v0.0.0
	github.com/junioryono/godi/v4/http v0.0.0
	github.com/andybalholm/brotli v1.1.0
	github.com/bytedance/sonic v1.11.6
	github.com/bytedance/sonic/loader v0.1.1
	github.com/cloudwego/base64x v0.1.4
	github.com/cloudwego/iasm v0.2.0
	github.com/davecgh/go-spew v1.1.1
	github.com/gabriel-vasile/mimetype v1.4.3
	github.com/gin-contrib/sse v0.1.0
	github.com/gin-gonic/gin v1.10.0
	github.com/go-playground/locales v0.14.1
	github.com/go-playground/universal-translator v0.18.1
	github.com/go-playground/validator/v10 v10.20.0
	github.com/goccy/go-json v0.10.2
	github.com/gofiber/fiber/v2 v2.52.6
	github.com/google/uuid v1.6.0
	github.com/json-iterator/go v1.1.12
	github.com/klauspost/compress v1.17.9
	github.com/klauspost/cpuid/v2 v2.2.7
	github.com/labstack/echo/v4 v4.13.3
	github.com/labstack/gommon v0.4.2
	github.com/leodido/go-urn v1.4.0
	github.com/mattn/go-colorable v0.1.13
	github.com/mattn/go-isatty v0.0.20
	github.com/mattn/go-runewidth v0.0.16
	github.com/modern-go/concurrent v0.0.0-20180306012644-bacd9c7ef1dd
	github.com/modern-go/reflect2 v1.0.2
	github.com/pelletier/go-toml/v2 v2.2.2
	github.com/pmezard/go-difflib v1.0.0
	github.com/rivo/uniseg v0.2.0
	github.com/stretchr/testify v1.11.1
	github.com/twitchyliquid64/golang-asm v0.15.1
	github.com/ugorji/go/codec v1.2.12
	github.com/valyala/bytebufferpool v1.0.0
	github.com/valyala/fasthttp v1.51.0
	github.com/valyala/fasttemplate v1.2.2
	github.com/valyala/tcplisten v1.0.0
	golang.org/x/arch v0.8.0
	golang.org/x/crypto v0.31.0
	golang.org/x/net v0.33.0
	golang.org/x/sys v0.28.0
	golang.org/x/text v0.21.0
	google.golang.org/protobuf v1.34.1
	gopkg.in/yaml.v3 v3.0.1
)

replace (
	github.com/junioryono/godi/v4 => /repo
	github.com/junioryono/godi/v4/chi => /repo/chi
	github.com/junioryono/godi/v4/echo => /repo/echo
	github.com/junioryono/godi/v4/fiber => /repo/fiber
	github.com/junioryono/godi/v4/gin => /repo/gin
	github.com/junioryono/godi/v4/http => /repo/http
)
