// Command mc is the coordinator / worker / replayer of the property checks.
//
//	mc check  <prop> <tier>           coordinator: shards jobs over worker processes
//	mc worker <prop> <tier> <i> <n> <out.json>
//	mc replay <prop> <file>           runs exactly the case stored in a replay file
package main

import (
	"context"
	"crypto/sha256"
	"encoding/json"
	"fmt"
	"io"
	"log/slog"
	"os"
	"os/exec"
	"path/filepath"
	"runtime"
	"runtime/debug"
	"runtime/pprof"
	"sort"
	"strconv"
	"strings"
	"sync"
	"time"

	"github.com/junioryono/godi/v4/verifmc/mc"
	_ "github.com/junioryono/godi/v4/verifmc/props"
)

func verifDir() string {
	if d := os.Getenv("VERIF_DIR"); d != "" {
		return d
	}
	return "/verif"
}

func main() {
	slog.SetDefault(slog.New(slog.NewTextHandler(io.Discard, nil)))
	if len(os.Args) < 2 {
		usage()
	}
	switch os.Args[1] {
	case "check":
		if len(os.Args) < 4 {
			usage()
		}
		os.Exit(coordinate(os.Args[2], os.Args[3]))
	case "worker":
		worker(os.Args[2], os.Args[3], atoi(os.Args[4]), atoi(os.Args[5]), os.Args[6])
	case "replay":
		os.Exit(replay(os.Args[2], os.Args[3]))
	case "job":
		// mc job <prop> <tier> <substring>: run matching jobs in-process and print their stats
		c := mc.Registry[os.Args[2]]
		if pf := os.Getenv("MC_PROF"); pf != "" {
			f, _ := os.Create(pf)
			pprof.StartCPUProfile(f)
			defer pprof.StopCPUProfile()
		}
		for _, j := range c.Jobs(os.Args[3]) {
			if !strings.Contains(j.Name, os.Args[4]) {
				continue
			}
			rep := mc.NewReport(os.Args[2], os.Args[3])
			rep.Deadline = deadlineFor(os.Args[3])
			rep.SetJob(j.Name)
			t0 := time.Now()
			j.Run(rep)
			fmt.Printf("%-60s exec=%d trans=%d states=%d outcomes=%d viol=%d capped=%v extra=%v %.1fs\n", j.Name, rep.Executions, rep.Transitions, rep.States, rep.Distinct(), len(rep.Violations), rep.Capped, rep.Extra, time.Since(t0).Seconds())
			for _, v := range rep.Violations {
				fmt.Println("   ", v.Sig(), v.Count)
			}
		}
	case "list":
		for p := range mc.Registry {
			fmt.Println(p)
		}
	default:
		usage()
	}
}

func usage() {
	fmt.Fprintln(os.Stderr, "usage: mc check <prop> <quick|thorough> | mc replay <prop> <file>")
	os.Exit(2)
}

func atoi(s string) int { n, _ := strconv.Atoi(s); return n }

func deadlineFor(tier string) time.Time {
	d := 150 * time.Second
	if tier == "thorough" {
		d = 25 * time.Minute
	}
	if v := os.Getenv("VERIF_BUDGET_S"); v != "" {
		d = time.Duration(atoi(v)) * time.Second
	}
	return time.Now().Add(d)
}

func worker(prop, tier string, i, n int, out string) {
	debug.SetMaxStack(64 << 20)
	runtime.GOMAXPROCS(1)
	c := mc.Registry[prop]
	if c == nil {
		fmt.Fprintln(os.Stderr, "unknown property", prop)
		os.Exit(42)
	}
	rep := mc.NewReport(prop, tier)
	rep.Deadline = deadlineFor(tier)
	if v := os.Getenv("MC_DEADLINE_UNIX"); v != "" {
		rep.Deadline = time.Unix(int64(atoi(v)), 0)
	}
	jobs := c.Jobs(tier)
	// n == 0: run exactly job i
	for k, j := range jobs {
		if (n == 0 && k != i) || (n > 0 && k%n != i) {
			continue
		}
		os.WriteFile(out+".progress", []byte(j.Name), 0o644)
		rep.SetJob(j.Name)
		t0 := time.Now()
		j.Run(rep)
		if os.Getenv("MC_TIMING") != "" {
			fmt.Fprintf(os.Stderr, "TIMING %8.1fs exec=%-8d %s\n", time.Since(t0).Seconds(), rep.Executions, j.Name)
		}
		// flush after every job so that a later crash loses nothing
		b, _ := json.Marshal(rep)
		os.WriteFile(out, b, 0o644)
	}
	b, _ := json.Marshal(rep)
	os.WriteFile(out, b, 0o644)
	os.Remove(out + ".progress")
}

func coordinate(prop, tier string) int {
	start := time.Now()
	c := mc.Registry[prop]
	if c == nil {
		fmt.Fprintln(os.Stderr, "unknown property", prop)
		return 2
	}
	seed := 0
	if v := os.Getenv("VERIF_SEED"); v != "" {
		seed = atoi(v)
	}
	jobs := c.Jobs(tier)
	n := runtime.NumCPU()
	if v := os.Getenv("VERIF_WORKERS"); v != "" {
		n = atoi(v)
	}
	if n > len(jobs) {
		n = len(jobs)
	}
	if n < 1 {
		n = 1
	}
	tmp, err := os.MkdirTemp("", "mc-"+prop+"-")
	if err != nil {
		fmt.Fprintln(os.Stderr, err)
		return 2
	}
	defer os.RemoveAll(tmp)
	self, _ := os.Executable()
	total := mc.NewReport(prop, tier)
	var mu sync.Mutex
	var wg sync.WaitGroup
	machErr := false
	deadline := deadlineFor(tier)
	// dynamic distribution: one process per job, heaviest first, n at a time
	order := make([]int, len(jobs))
	for i := range order {
		order[i] = i
	}
	sort.SliceStable(order, func(a, b int) bool { return jobs[order[a]].Weight > jobs[order[b]].Weight })
	next := 0
	for w := 0; w < n; w++ {
		wg.Add(1)
		go func(w int) {
			defer wg.Done()
			for {
				mu.Lock()
				if next >= len(order) {
					mu.Unlock()
					return
				}
				i := order[next]
				next++
				mu.Unlock()
				out := filepath.Join(tmp, fmt.Sprintf("j%d.json", i))
				// workers stop themselves at the deadline; one that is still running three minutes later is stuck
				// (an endless loop in the harness or in godi): it is killed and reported as a machinery error
				hard, cancelHard := context.WithDeadline(context.Background(), deadline.Add(3*time.Minute))
				cmd := exec.CommandContext(hard, self, "worker", prop, tier, strconv.Itoa(i), "0", out)
				cmd.Stderr = os.Stderr
				cmd.Stdout = os.Stderr
				cmd.Env = append(os.Environ(), "GOMAXPROCS=1", fmt.Sprintf("MC_DEADLINE_UNIX=%d", deadline.Unix()))
				err := cmd.Run()
				stuck := hard.Err() != nil
				cancelHard()
				mu.Lock()
				if b, rerr := os.ReadFile(out); rerr == nil {
					var rep mc.Report
					if json.Unmarshal(b, &rep) == nil {
						wr := mc.NewReport(prop, tier)
						wr.Merge(&rep)
						total.Merge(wr)
					}
				}
				if err != nil {
					job := jobs[i].Name
					code := -1
					if ee, ok := err.(*exec.ExitError); ok {
						code = ee.ExitCode()
					}
					if stuck {
						machErr = true
						total.MachErr = append(total.MachErr, fmt.Sprintf("worker for job %s was still running 3 minutes after the deadline and was killed", job))
					} else if _, exited := err.(*exec.ExitError); !exited {
						// the worker never ran (fork/exec failed, binary removed, ...): the machinery's problem, not godi's
						machErr = true
						total.MachErr = append(total.MachErr, fmt.Sprintf("worker could not be started for job %s: %v", job, err))
					} else if code == 42 || code == 43 {
						machErr = true
						total.MachErr = append(total.MachErr, fmt.Sprintf("worker exited %d in job %s", code, job))
					} else {
						// a crash of the process: Go's runtime ends with status 2 on "fatal error: stack overflow"
						// (unbounded recursive resolution), out of memory, concurrent map writes …
						total.Violate(map[string]string{"clause": "crash", "job": scenName(job)}, fmt.Sprintf("worker crashed (%v) while running job %s", err, job), map[string]any{"job": job})
					}
				}
				mu.Unlock()
			}
		}(w)
	}
	wg.Wait()
	return finish(c, total, seed, start, machErr)
}

func finish(c *mc.Check, total *mc.Report, seed int, start time.Time, machErr bool) int {
	prop := c.Prop
	ff, err := mc.LoadFindings(filepath.Join(verifDir(), "known_findings.json"))
	if err != nil {
		fmt.Fprintln(os.Stderr, "known_findings.json:", err)
		return 2
	}
	exit := 0
	known := map[string]bool{}
	var knownList []string
	nviol := 0
	sort.Slice(total.Violations, func(i, j int) bool { return total.Violations[i].Sig() < total.Violations[j].Sig() })
	for _, v := range total.Violations {
		matched := false
		for _, f := range ff.Findings {
			if f.Matches(prop, v.Features) {
				matched = true
				if !known[f.ID] {
					known[f.ID] = true
					knownList = append(knownList, f.ID)
					fmt.Printf("KNOWN-FINDING: property=%s %s: %s\n", prop, f.ID, f.What)
				}
				break
			}
		}
		if matched {
			continue
		}
		nviol++
		h := sha256.Sum256([]byte(v.Sig()))
		dir := filepath.Join(verifDir(), "replays", prop)
		os.MkdirAll(dir, 0o755)
		path := filepath.Join(dir, fmt.Sprintf("%x.json", h[:6]))
		rb, _ := json.MarshalIndent(map[string]any{"property": prop, "job": v.Job, "features": v.Features, "detail": v.Detail, "case": v.Case}, "", " ")
		os.WriteFile(path, rb, 0o644)
		fmt.Printf("VIOLATION property=%s replay=%s\n", prop, path)
		fmt.Printf("  features: %s\n  detail: %s\n", v.Sig(), firstLines(v.Detail, 12))
		exit = 1
	}
	distinct := total.Distinct()
	if len(total.Samples) == 0 {
		total.Samples = append(total.Samples, map[string]any{"note": "no sample recorded", "jobs": total.Jobs})
	}
	states := total.States
	if states == 0 {
		states = total.Executions
	}
	cov := map[string]any{
		"states":                        states,
		"transitions":                   total.Transitions,
		"traces_validated_against_impl": total.Validated,
		"samples":                       total.Samples,
		"evaluations":                   total.Executions,
		"distinct_nontrivial":           distinct,
		"rule":                          c.Rule,
		"exhaustive":                    !total.Capped && len(total.MachErr) == 0,
		"capped_jobs":                   total.CapNotes,
		"jobs":                          len(total.Jobs),
		"outcome_examples":              topOutcomes(total.Outcomes, 10),
		"extra":                         total.Extra,
		"known_findings_matched":        knownList,
		"distinct_is_lower_bound":       total.OutcomeOverflow > 0,
		"notes":                         total.Notes,
		"machinery_errors":              total.MachErr,
	}
	ev := map[string]any{
		"property_id": prop,
		"tier":        total.Tier,
		"seed":        seed,
		"level":       "model_checking",
		"coverage":    cov,
		"assumptions": c.Assume,
		"wall_s":      time.Since(start).Seconds(),
		"violations":  nviol,
	}
	eb, _ := json.MarshalIndent(ev, "", " ")
	evDir := filepath.Join(verifDir(), "evidence")
	if d := os.Getenv("VERIF_EVIDENCE_DIR"); d != "" {
		evDir = d // runs against deliberately broken trees (bin/seed-run, bin/mutant) keep their evidence apart
	}
	os.MkdirAll(evDir, 0o755)
	if err := os.WriteFile(filepath.Join(evDir, prop+".json"), eb, 0o644); err != nil {
		fmt.Fprintln(os.Stderr, err)
		return 2
	}
	fmt.Printf("%s %s: jobs=%d executions=%d transitions=%d outcomes=%d violations=%d known=%v exhaustive=%v wall=%.1fs\n",
		prop, total.Tier, len(total.Jobs), total.Executions, total.Transitions, distinct, nviol, knownList, !total.Capped, time.Since(start).Seconds())
	if machErr || len(total.MachErr) > 0 {
		fmt.Fprintln(os.Stderr, "machinery errors:", strings.Join(total.MachErr, "; "))
		if exit == 0 {
			return 2
		}
	}
	if exit == 0 && c.MinOutcomes > 0 && int(distinct) < c.MinOutcomes {
		fmt.Fprintf(os.Stderr, "vacuity guard: only %d distinct outcomes (< %d)\n", distinct, c.MinOutcomes)
		return 2
	}
	return exit
}

// topOutcomes keeps the evidence file small: the n most frequent outcome
// classes, each cut to 400 characters.
func topOutcomes(m map[string]int64, n int) []map[string]any {
	type kv struct {
		k string
		v int64
	}
	var l []kv
	for k, v := range m {
		l = append(l, kv{k, v})
	}
	sort.Slice(l, func(i, j int) bool {
		if l[i].v != l[j].v {
			return l[i].v > l[j].v
		}
		return l[i].k < l[j].k
	})
	if len(l) > n {
		l = l[:n]
	}
	var out []map[string]any
	for _, e := range l {
		k := e.k
		if len(k) > 400 {
			k = k[:400] + "…"
		}
		out = append(out, map[string]any{"outcome": k, "executions": e.v})
	}
	return out
}

func scenName(j string) string {
	if i := strings.IndexByte(j, '/'); i >= 0 {
		return j[:i]
	}
	return j
}

func firstLines(s string, n int) string {
	l := strings.Split(s, "\n")
	if len(l) > n {
		l = append(l[:n], "…")
	}
	return strings.Join(l, "\n    ")
}

func replay(prop, file string) int {
	debug.SetMaxStack(64 << 20)
	c := mc.Registry[prop]
	if c == nil {
		fmt.Fprintln(os.Stderr, "unknown property", prop)
		return 2
	}
	b, err := os.ReadFile(file)
	if err != nil {
		fmt.Fprintln(os.Stderr, err)
		return 2
	}
	var rf struct {
		Job  string          `json:"job"`
		Case json.RawMessage `json:"case"`
	}
	if err := json.Unmarshal(b, &rf); err != nil {
		fmt.Fprintln(os.Stderr, err)
		return 2
	}
	for _, tier := range []string{"quick", "thorough"} {
		for _, j := range c.Jobs(tier) {
			if j.Name != rf.Job {
				continue
			}
			rep := mc.NewReport(prop, tier)
			rep.Only = rf.Case
			rep.SetJob(j.Name)
			j.Run(rep)
			if len(rep.Violations) > 0 {
				for _, v := range rep.Violations {
					fmt.Printf("VIOLATION property=%s replay=%s\n  features: %s\n  detail: %s\n", prop, file, v.Sig(), v.Detail)
				}
				return 1
			}
			fmt.Println("replay: no violation reproduced")
			return 0
		}
	}
	fmt.Fprintln(os.Stderr, "replay: job not found:", rf.Job)
	return 2
}
