// Command racecheck is the auxiliary FREE-RUNNING pass of C09: the same kind of
// two/three-goroutine programs the schedule explorer enumerates, but on the
// UNREWRITTEN godi (real sync, real goroutines), built with -race and repeated
// many times. It samples - it is not the deciding step of any property - and
// exists to cross-check what the cooperative scheduler cannot see by
// construction: accesses the rewriter does not instrument (locals captured by
// closures, memory behind reflect / context values) and real memory-model
// effects. The Go race detector has no false positives, so a report whose two
// accesses are both inside godi's own packages is a genuine data race.
//
//	racecheck <program> <iterations>      (GORACE=log_path=... halt_on_error=0)
package main

import (
	"context"
	"fmt"
	"os"
	"runtime"
	"strconv"
	"sync"

	"github.com/junioryono/godi/v4"
	"github.com/junioryono/godi/v4/verifmc/kit"
)

func spec(withInit bool) kit.Spec {
	s := kit.Spec{Regs: []kit.Reg{
		{ID: 0, Life: "singleton", Outs: []kit.Out{{T: "D0"}}},
		{ID: 1, Life: "scoped", Outs: []kit.Out{{T: "D1"}}, Deps: []kit.Dep{{T: "D0"}}},
		{ID: 2, Life: "transient", Outs: []kit.Out{{T: "D2"}}, Deps: []kit.Dep{{T: "D0"}}},
		{ID: 3, Life: "scoped", Outs: []kit.Out{{T: "D3"}}, Group: "g"},
		{ID: 4, Life: "scoped", Outs: []kit.Out{{T: "D3"}}, Group: "g", Deps: []kit.Dep{{T: "D1"}}},
		{ID: 5, Life: "scoped", Outs: []kit.Out{{T: "P5"}}, Name: "k"},
		{ID: 7, Life: "scoped", Outs: []kit.Out{{T: "P4"}}, Deps: []kit.Dep{{T: "D1"}, {T: "D2"}, {T: "D0"}}},
		{ID: 8, Life: "scoped", In: true, Outs: []kit.Out{{T: "P3"}}, Deps: []kit.Dep{{T: "D3", Group: "g"}, {T: "P5", Key: "k"}, {T: "scope"}, {T: "ctx"}, {T: "D4", Opt: true}}},
		{ID: 9, Life: "scoped", Outs: []kit.Out{{T: "D5"}}, As: []string{"IA", "IB"}},
		{ID: 10, Life: "scoped", ResObj: true, Outs: []kit.Out{{T: "P0"}, {T: "P1", Key: "k"}}, Deps: []kit.Dep{{T: "D1"}}},
	}}
	if withInit {
		s.Regs = append(s.Regs, kit.Reg{ID: 6, Life: "scoped", Kind: "void", Deps: []kit.Dep{{T: "D1"}}})
	}
	return s
}

type env struct {
	p          godi.Provider
	s0, s1, s2 godi.Scope
	cancel     context.CancelFunc
}

type op func(e *env)

func get(which int, t string) op {
	return func(e *env) { _, _ = []godi.Scope{e.s0, e.s1, e.s2}[which].Get(kit.TypeOf(t)) }
}

var ops = map[string]op{
	"get-scoped":      get(1, "D1"),
	"get-transient":   get(1, "D2"),
	"get-singleton":   get(1, "D0"),
	"get-3param":      get(1, "P4"),
	"get-3param-s2":   get(2, "P4"),
	"get-in":          get(1, "P3"),
	"get-in-s2":       get(2, "P3"),
	"get-alias-a":     get(1, "IA"),
	"get-alias-b":     get(1, "IB"),
	"get-resobj":      get(1, "P0"),
	"get-group":       func(e *env) { _, _ = e.s1.GetGroup(kit.TypeOf("D3"), "g") },
	"get-keyed":       func(e *env) { _, _ = e.s1.GetKeyed(kit.TypeOf("P5"), "k") },
	"get-resobj-key":  func(e *env) { _, _ = e.s1.GetKeyed(kit.TypeOf("P1"), "k") },
	"provider-get":    func(e *env) { _, _ = e.p.Get(kit.TypeOf("D1")) },
	"create-scope":    func(e *env) { _, _ = e.p.CreateScope(context.Background()) },
	"create-child":    func(e *env) { _, _ = e.s1.CreateScope(nil) },
	"close-scope":     func(e *env) { _ = e.s1.Close() },
	"close-parent":    func(e *env) { _ = e.s0.Close() },
	"close-provider":  func(e *env) { _ = e.p.Close() },
	"cancel-scope":    func(e *env) { e.cancel() },
	"from-context":    func(e *env) { _, _ = godi.FromContext(e.s1.Context()) },
	"provider-id":     func(e *env) { _ = e.p.ID() },
}

// programs: name -> (with initializer, operations run concurrently, one goroutine each)
var programs = map[string]struct {
	init bool
	ops  []string
}{
	"scoped-x2":            {false, []string{"get-scoped", "get-scoped"}},
	"scoped-x3-init":       {true, []string{"get-scoped", "get-3param", "get-in"}},
	"aliases":              {false, []string{"get-alias-a", "get-alias-b"}},
	"resobj":               {false, []string{"get-resobj", "get-resobj-key", "get-resobj"}},
	"group-x2":             {false, []string{"get-group", "get-group", "get-in"}},
	"two-scopes":           {false, []string{"get-3param", "get-3param-s2", "get-in-s2"}},
	"get-vs-close":         {false, []string{"get-scoped", "close-scope", "get-transient"}},
	"get-vs-cancel":        {false, []string{"get-keyed", "cancel-scope", "get-in"}},
	"child-vs-close":       {true, []string{"create-child", "close-scope", "from-context"}},
	"child-vs-parent":      {false, []string{"create-child", "close-parent", "get-scoped"}},
	"scope-vs-provider":    {true, []string{"create-scope", "close-provider", "provider-get"}},
	"get-vs-provider":      {false, []string{"get-in", "close-provider", "get-group"}},
	"close-x3":             {false, []string{"close-scope", "close-parent", "cancel-scope"}},
	"singleton-and-ids":    {false, []string{"get-singleton", "provider-id", "provider-get", "create-scope"}},
}

func runOnce(name string) {
	pr := programs[name]
	sp := spec(pr.init)
	w := kit.NewWorld(&sp)
	c := godi.NewCollection()
	for _, err := range w.Apply(c) {
		if err != nil {
			fmt.Fprintln(os.Stderr, "racecheck: registration failed:", err)
			os.Exit(2)
		}
	}
	p, err := c.Build()
	if err != nil {
		fmt.Fprintln(os.Stderr, "racecheck: build failed:", err)
		os.Exit(2)
	}
	e := &env{p: p}
	e.s0, _ = p.CreateScope(context.Background())
	ctx, cancel := context.WithCancel(context.Background())
	e.cancel = cancel
	e.s1, _ = e.s0.CreateScope(ctx)
	e.s2, _ = p.CreateScope(nil)
	var wg sync.WaitGroup
	start := make(chan struct{})
	for _, on := range pr.ops {
		f := ops[on]
		wg.Add(1)
		go func() {
			defer wg.Done()
			defer func() { _ = recover() }()
			<-start
			f(e)
		}()
	}
	close(start)
	wg.Wait()
	cancel()
	_ = p.Close()
}

func main() {
	if len(os.Args) < 3 {
		for n := range programs {
			fmt.Println(n)
		}
		return
	}
	name := os.Args[1]
	if _, ok := programs[name]; !ok {
		fmt.Fprintln(os.Stderr, "racecheck: unknown program", name)
		os.Exit(2)
	}
	n, _ := strconv.Atoi(os.Args[2])
	runtime.GOMAXPROCS(4)
	for i := 0; i < n; i++ {
		runOnce(name)
	}
	fmt.Printf("racecheck %s: %d iterations\n", name, n)
}
