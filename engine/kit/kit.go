// Package kit closes the system around godi for the explorers: a pool of
// declared service types, data-driven (JSON-able) registration specs turned
// into real constructors with reflect.MakeFunc / reflect.StructOf, a recorder
// of every constructor invocation / argument / Close, and fault plans.
package kit

import (
	"context"
	"errors"
	"fmt"
	"reflect"
	"sort"
	"strings"
	"sync"

	"github.com/junioryono/godi/v4"
	"github.com/junioryono/godi/v4/internal/vsched"
)

type IA interface {
	Who() *Inst
	IsA()
}
type IB interface {
	Who() *Inst
	IsB()
}

type hasInst interface{ Who() *Inst }

var (
	ctxType      = reflect.TypeOf((*context.Context)(nil)).Elem()
	scopeType    = reflect.TypeOf((*godi.Scope)(nil)).Elem()
	providerType = reflect.TypeOf((*godi.Provider)(nil)).Elem()
	errType      = reflect.TypeOf((*error)(nil)).Elem()
	inType       = reflect.TypeOf(godi.In{})
	outType      = reflect.TypeOf(godi.Out{})
)

// TypeOf maps a spec type name to its reflect.Type.
func TypeOf(name string) reflect.Type {
	switch name {
	case "ctx":
		return ctxType
	case "scope":
		return scopeType
	case "provider":
		return providerType
	case "void":
		return reflect.TypeOf(struct{}{}) // the service type godi gives to functions without results
	}
	t, ok := poolTypes[name]
	if !ok {
		panic("kit: unknown type " + name)
	}
	return t
}

// ---------------------------------------------------------------- spec

type Dep struct {
	T      string `json:"t"`
	Key    string `json:"key,omitempty"`
	Group  string `json:"group,omitempty"`
	Opt    bool   `json:"opt,omitempty"`
	Ignore bool   `json:"ignore,omitempty"`
	Unexp  bool   `json:"unexp,omitempty"`
}

type Out struct {
	T     string `json:"t"`
	Conc  string `json:"conc,omitempty"`  // concrete pool type when T is an interface
	// Alt / AltFrom: from invocation AltFrom on (1-based) the constructor yields concrete type Alt
	// instead of Conc (an interface-typed service whose dynamic type varies between invocations)
	Alt     string `json:"alt,omitempty"`
	AltFrom int    `json:"alt_from,omitempty"`
	Key   string `json:"key,omitempty"`   // result-object field tag
	Group string `json:"group,omitempty"` // result-object field tag
}

type Reg struct {
	ID     int      `json:"id"`
	Life   string   `json:"life"`           // singleton | scoped | transient
	Kind   string   `json:"kind,omitempty"` // "" (ctor) | instance | void | voiderr
	Outs   []Out    `json:"outs,omitempty"`
	ResObj bool     `json:"resobj,omitempty"`
	Err    bool     `json:"err,omitempty"`
	Deps   []Dep    `json:"deps,omitempty"`
	In     bool     `json:"in,omitempty"`
	InPtr  bool     `json:"inptr,omitempty"`
	Name   string   `json:"name,omitempty"`
	Group  string   `json:"group,omitempty"`
	As     []string `json:"as,omitempty"`
	// Nested: identities this constructor resolves from its injected Scope while it
	// runs (service-locator style), on its first invocation only.
	Nested []Dep `json:"nested,omitempty"`
	// NestedInChild: the nested resolutions are issued on a fresh child scope the constructor creates
	// from its injected Scope / Provider (and closes again), e.g. a warm-up step.
	NestedInChild bool `json:"nested_in_child,omitempty"`
	// NestedAsync: the nested resolutions are issued by a goroutine the constructor starts and does
	// not wait for (a background warm-up worker that was handed the injected Provider / Scope).
	NestedAsync bool `json:"nested_async,omitempty"`
	// CloseJoins: the instances' Close method first waits until no resolution / scope creation issued
	// by another goroutine of the harness is in flight (a worker whose Close joins its background
	// job, the job being whatever the other harness threads are doing right now).
	CloseJoins bool `json:"close_joins,omitempty"`
	// RemoveFirst: identities removed from the collection (Remove / RemoveKeyed) right before this
	// registration is added - the "override one service" pattern.
	RemoveFirst []Dep `json:"remove_first,omitempty"`
	// CloseScope: the instances remember the Scope they were injected with and their Close method
	// closes that scope again (a unit of work forwarding Close to its scope); the result of that
	// inner Close is recorded.
	CloseScope bool `json:"close_scope,omitempty"`
	// ChildAt: on this invocation (1-based; 0 = never) the constructor creates a child scope on its
	// injected Scope while it runs, with a nil context (user code calling back into the container).
	ChildAt int `json:"child_at,omitempty"`
}

type Spec struct {
	Regs []Reg `json:"regs"`
}

func (r *Reg) String() string {
	var b strings.Builder
	fmt.Fprintf(&b, "r%d:%s", r.ID, r.Life)
	if r.Kind != "" {
		b.WriteString("/" + r.Kind)
	}
	b.WriteString("(")
	for i, d := range r.Deps {
		if i > 0 {
			b.WriteString(",")
		}
		b.WriteString(d.T)
		if d.Key != "" {
			b.WriteString("@" + d.Key)
		}
		if d.Group != "" {
			b.WriteString("[" + d.Group + "]")
		}
		if d.Opt {
			b.WriteString("?")
		}
	}
	b.WriteString(")->")
	for i, o := range r.Outs {
		if i > 0 {
			b.WriteString(",")
		}
		b.WriteString(o.T)
		if o.Key != "" {
			b.WriteString("@" + o.Key)
		}
		if o.Group != "" {
			b.WriteString("[" + o.Group + "]")
		}
	}
	if r.Name != "" {
		b.WriteString(" name=" + r.Name)
	}
	if r.Group != "" {
		b.WriteString(" group=" + r.Group)
	}
	if len(r.As) > 0 {
		b.WriteString(" as=" + strings.Join(r.As, "+"))
	}
	return b.String()
}

// ---------------------------------------------------------------- recorder

// InjErr is an injected failure (constructor error or Close error).
type InjErr struct {
	What   string
	Reg    int
	Serial int
}

func (e *InjErr) Error() string { return fmt.Sprintf("injected %s r%d#%d", e.What, e.Reg, e.Serial) }

type Inst struct {
	Seq      int // creation ordinal in the world
	Reg      int
	Serial   int
	Out      int
	T        string
	Given    bool // registered instance value (not created by the container)
	Disp     bool
	Call     *Call
	Created  int // stamp
	Closes   []CloseRec
	w        *World
	Sentinel int // must stay 0: nothing may touch instances without Close
	// reclose: scope this instance closes again from its own Close method; the errors those inner
	// Close calls returned
	reclose    godi.Scope
	RecloseErr []error
}

type CloseRec struct {
	Stamp  int
	Thread int
}

func (i *Inst) Label() string {
	if i == nil {
		return "nil"
	}
	return fmt.Sprintf("r%d#%d.%d", i.Reg, i.Serial, i.Out)
}

func (i *Inst) doClose() error {
	vsched.Yield("close")
	if r := i.w.regByID(i.Reg); r != nil && r.CloseJoins {
		me := vsched.ThreadID()
		vsched.WaitUntil("close-joins", func() bool {
			i.w.mu.Lock()
			defer i.w.mu.Unlock()
			for tid, n := range i.w.inflight {
				if tid != me && n > 0 {
					return false
				}
			}
			return true
		})
	}
	if i.reclose != nil {
		err := i.reclose.Close()
		i.w.mu.Lock()
		i.RecloseErr = append(i.RecloseErr, err)
		i.w.mu.Unlock()
	}
	w := i.w
	w.mu.Lock()
	defer w.mu.Unlock()
	i.Closes = append(i.Closes, CloseRec{Stamp: w.tick(), Thread: vsched.ThreadID()})
	w.Events = append(w.Events, Event{Stamp: w.stamp, Kind: "close", Inst: i, Thread: vsched.ThreadID()})
	if w.CloseFail[i.Label()] {
		e := &InjErr{What: "close", Reg: i.Reg, Serial: i.Serial}
		w.CloseErrs = append(w.CloseErrs, e)
		return e
	}
	return nil
}

type Arg struct {
	Kind string // inst | nil | ctx | scope | provider | list | other
	Inst *Inst
	List []Arg
	Ref  any // ctx / scope / provider value
	Dep  Dep
}

func (a Arg) String() string {
	switch a.Kind {
	case "inst":
		return a.Inst.Label()
	case "list":
		s := make([]string, len(a.List))
		for i, x := range a.List {
			s[i] = x.String()
		}
		return "[" + strings.Join(s, " ") + "]"
	}
	return a.Kind
}

type Call struct {
	Reg     int
	Serial  int
	Thread  int
	Start   int
	End     int
	Args    []Arg
	Outcome string // ok | err | nil | panic
	Outs    []*Inst
	Nested  []Arg  // results of the nested resolutions (Kind "err:<class>" on failure)
	Via     string // "provider" when this call happened inside a nested resolution issued through an injected Provider
}

type Event struct {
	Stamp  int
	Kind   string // ctor-start | ctor-end | close | mark
	Call   *Call
	Inst   *Inst
	Thread int
	Note   string
}

// World is the per-execution recorder and fault plan.
type World struct {
	mu        sync.Mutex
	inflight  map[int]int // thread -> resolutions / scope creations in flight
	// CancelBuild cancels the context the collection is being built with (fault "cancel-build")
	CancelBuild func()
	Spec      *Spec
	Insts     []*Inst
	Calls     []*Call
	Events    []Event
	stamp     int
	serial    map[int]int
	Faults    map[string]string // "reg:serial" -> err | nil | panic:<kind>
	CloseFail map[string]bool   // inst label -> Close returns an error
	InjErrs   []*InjErr
	CloseErrs []*InjErr
	PanicVals []any
	given     map[int]any
	fns       map[int]any
	via       map[int]string // per thread: how the constructor calls currently made by that thread were reached
}

func NewWorld(spec *Spec) *World {
	return &World{Spec: spec, serial: map[int]int{}, Faults: map[string]string{}, CloseFail: map[string]bool{},
		given: map[int]any{}, fns: map[int]any{}, via: map[int]string{}}
}

func (w *World) tick() int {
	w.stamp++
	vsched.Note(uint64(vsched.ThreadID() + 2))
	return w.stamp
}

// Mark records a harness event (operation start / end) and returns its stamp.
func (w *World) Mark(note string) int {
	w.mu.Lock()
	defer w.mu.Unlock()
	s := w.tick()
	w.Events = append(w.Events, Event{Stamp: s, Kind: "mark", Note: note, Thread: vsched.ThreadID()})
	return s
}

func (w *World) CallsOf(reg int) []*Call {
	var out []*Call
	for _, c := range w.Calls {
		if c.Reg == reg {
			out = append(out, c)
		}
	}
	return out
}

func (w *World) InstsOf(reg int) []*Inst {
	var out []*Inst
	for _, c := range w.Insts {
		if c.Reg == reg && !c.Given {
			out = append(out, c)
		}
	}
	return out
}

func (w *World) newInst(reg *Reg, call *Call, out int, conc string) (*Inst, any) {
	in := &Inst{Seq: len(w.Insts), Reg: reg.ID, Out: out, T: conc, Call: call, w: w, Disp: strings.HasPrefix(conc, "D")}
	if call != nil {
		in.Serial = call.Serial
	}
	in.Created = w.tick()
	w.Insts = append(w.Insts, in)
	if conc == "V0" {
		return in, V0{I: in}
	}
	return in, newPool(conc, in)
}

// Describe maps any value handed out by the container to a stable label.
func Describe(v any) string {
	if v == nil {
		return "<nil>"
	}
	if h, ok := v.(hasInst); ok {
		rv := reflect.ValueOf(v)
		if rv.Kind() == reflect.Pointer && rv.IsNil() {
			return "typednil:" + rv.Type().Elem().Name()
		}
		return h.Who().Label()
	}
	switch x := v.(type) {
	case godi.Scope:
		return "scope"
	case godi.Provider:
		return "provider"
	case context.Context:
		return "ctx"
	case struct{}:
		return "void"
	case []any:
		s := make([]string, len(x))
		for i, e := range x {
			s[i] = Describe(e)
		}
		return "[" + strings.Join(s, " ") + "]"
	}
	return fmt.Sprintf("other:%T", v)
}

// InstOf returns the Inst behind a pool value (nil otherwise).
func InstOf(v any) *Inst {
	if v == nil {
		return nil
	}
	if h, ok := v.(hasInst); ok {
		rv := reflect.ValueOf(v)
		if rv.Kind() == reflect.Pointer && rv.IsNil() {
			return nil
		}
		return h.Who()
	}
	return nil
}

func decodeArg(v reflect.Value, d Dep) Arg {
	if !v.IsValid() {
		return Arg{Kind: "nil", Dep: d}
	}
	switch v.Kind() {
	case reflect.Slice:
		a := Arg{Kind: "list", Dep: d}
		if v.IsNil() {
			a.Kind = "nillist"
			return a
		}
		for i := 0; i < v.Len(); i++ {
			a.List = append(a.List, decodeArg(v.Index(i), d))
		}
		return a
	case reflect.Interface, reflect.Pointer:
		if v.IsNil() {
			return Arg{Kind: "nil", Dep: d}
		}
	}
	if !v.CanInterface() {
		return Arg{Kind: "unexported", Dep: d}
	}
	x := v.Interface()
	if h, ok := x.(hasInst); ok {
		return Arg{Kind: "inst", Inst: h.Who(), Dep: d}
	}
	switch x.(type) {
	case godi.Scope:
		return Arg{Kind: "scope", Ref: x, Dep: d}
	case godi.Provider:
		return Arg{Kind: "provider", Ref: x, Dep: d}
	case context.Context:
		return Arg{Kind: "ctx", Ref: x, Dep: d}
	}
	return Arg{Kind: "other", Ref: x, Dep: d}
}

// ---------------------------------------------------------------- constructors

func depType(d Dep) reflect.Type {
	t := TypeOf(d.T)
	if d.Group != "" {
		return reflect.SliceOf(t)
	}
	return t
}

func inStruct(deps []Dep) reflect.Type {
	fields := []reflect.StructField{{Name: "In", Type: inType, Anonymous: true}}
	for i, d := range deps {
		var tags []string
		if d.Key != "" {
			tags = append(tags, fmt.Sprintf(`name:"%s"`, d.Key))
		}
		if d.Group != "" {
			tags = append(tags, fmt.Sprintf(`group:"%s"`, d.Group))
		}
		if d.Opt {
			tags = append(tags, `optional:"true"`)
		}
		if d.Ignore {
			tags = append(tags, `inject:"-"`)
		}
		f := reflect.StructField{Name: fmt.Sprintf("F%d", i), Type: depType(d), Tag: reflect.StructTag(strings.Join(tags, " "))}
		if d.Unexp {
			f.Name = fmt.Sprintf("f%d", i)
			f.PkgPath = "github.com/junioryono/godi/v4/verifmc/kit"
		}
		fields = append(fields, f)
	}
	return reflect.StructOf(fields)
}

func outStruct(outs []Out) reflect.Type {
	fields := []reflect.StructField{{Name: "Out", Type: outType, Anonymous: true}}
	for i, o := range outs {
		var tags []string
		if o.Key != "" {
			tags = append(tags, fmt.Sprintf(`name:"%s"`, o.Key))
		}
		if o.Group != "" {
			tags = append(tags, fmt.Sprintf(`group:"%s"`, o.Group))
		}
		fields = append(fields, reflect.StructField{Name: fmt.Sprintf("F%d", i), Type: TypeOf(o.T), Tag: reflect.StructTag(strings.Join(tags, " "))})
	}
	return reflect.StructOf(fields)
}

func concOf(o Out) string {
	if o.Conc != "" {
		return o.Conc
	}
	return o.T
}

// concAt: the concrete type output o has at invocation serial.
func concAt(o Out, serial int) string {
	if o.Alt != "" && o.AltFrom > 0 && serial >= o.AltFrom {
		return o.Alt
	}
	return concOf(o)
}

// FuncType returns the constructor signature a registration asks for.
func FuncType(r *Reg) reflect.Type {
	var ins, outs []reflect.Type
	if r.In {
		st := inStruct(r.Deps)
		if r.InPtr {
			st = reflect.PointerTo(st)
		}
		ins = []reflect.Type{st}
	} else {
		for _, d := range r.Deps {
			ins = append(ins, depType(d))
		}
	}
	switch r.Kind {
	case "void":
	case "voiderr":
		outs = []reflect.Type{errType}
	default:
		if r.ResObj {
			outs = []reflect.Type{outStruct(r.Outs)}
		} else {
			for _, o := range r.Outs {
				outs = append(outs, TypeOf(o.T))
			}
		}
		if r.Err {
			outs = append(outs, errType)
		}
	}
	return reflect.FuncOf(ins, outs, false)
}

// Body is the behaviour shared by every harness constructor: yield, record
// the invocation and its arguments, consult the fault plan, create outputs.
func (w *World) Body(r *Reg, ft reflect.Type) func(args []reflect.Value) []reflect.Value {
	return func(args []reflect.Value) []reflect.Value {
		vsched.Yield("ctor")
		w.mu.Lock()
		w.serial[r.ID]++
		call := &Call{Reg: r.ID, Serial: w.serial[r.ID], Thread: vsched.ThreadID(), Start: w.tick(), Via: w.via[vsched.ThreadID()]}
		w.Calls = append(w.Calls, call)
		w.Events = append(w.Events, Event{Stamp: call.Start, Kind: "ctor-start", Call: call, Thread: call.Thread})
		if r.In {
			sv := args[0]
			if sv.Kind() == reflect.Pointer {
				sv = sv.Elem()
			}
			for i, d := range r.Deps {
				call.Args = append(call.Args, decodeArg(sv.Field(i+1), d))
			}
		} else {
			for i, d := range r.Deps {
				call.Args = append(call.Args, decodeArg(args[i], d))
			}
		}
		if len(r.Nested) > 0 && call.Serial == 1 {
			// resolve from the injected scope while this constructor is running
			var sc godi.Provider
			for _, a := range call.Args {
				if a.Kind == "scope" {
					sc, _ = a.Ref.(godi.Scope)
				}
			}
			viaProvider := false
			if sc == nil {
				// no Scope injected: resolve through an injected Provider (the root scope)
				for _, a := range call.Args {
					if a.Kind == "provider" {
						sc, _ = a.Ref.(godi.Provider)
						viaProvider = true
					}
				}
			}
			if sc != nil && r.NestedAsync {
				sc0 := sc
				w.mu.Unlock()
				vsched.GoNamed("locator", func() {
					tid := vsched.ThreadID()
					w.mu.Lock()
					if viaProvider {
						w.via[tid] = "provider"
					}
					w.mu.Unlock()
					for _, nd := range r.Nested {
						var v any
						var err error
						if nd.Key != "" {
							v, err = sc0.GetKeyed(TypeOf(nd.T), nd.Key)
						} else {
							v, err = sc0.Get(TypeOf(nd.T))
						}
						w.mu.Lock()
						if err != nil {
							call.Nested = append(call.Nested, Arg{Kind: "err:" + ClassOf(err), Dep: nd})
						} else {
							call.Nested = append(call.Nested, decodeArg(reflect.ValueOf(v), nd))
						}
						w.mu.Unlock()
					}
				})
				w.mu.Lock()
			} else if sc != nil {
				tid := vsched.ThreadID()
				prevVia := w.via[tid]
				if viaProvider {
					w.via[tid] = "provider"
				}
				w.mu.Unlock()
				var tmp godi.Scope
				if r.NestedInChild {
					w.mu.Lock()
					w.via[tid] = "child"
					w.mu.Unlock()
					if cs, err := sc.CreateScope(context.Background()); err == nil {
						tmp = cs
						sc = cs
					}
				}
				for _, nd := range r.Nested {
					var v any
					var err error
					if nd.Key != "" {
						v, err = sc.GetKeyed(TypeOf(nd.T), nd.Key)
					} else {
						v, err = sc.Get(TypeOf(nd.T))
					}
					if err != nil {
						call.Nested = append(call.Nested, Arg{Kind: "err:" + ClassOf(err), Dep: nd})
					} else {
						call.Nested = append(call.Nested, decodeArg(reflect.ValueOf(v), nd))
					}
				}
				if tmp != nil {
					_ = tmp.Close()
				}
				w.mu.Lock()
				w.via[tid] = prevVia
			}
		}
		if r.ChildAt != 0 && call.Serial == r.ChildAt {
			for _, a := range call.Args {
				if a.Kind != "scope" {
					continue
				}
				sc, _ := a.Ref.(godi.Scope)
				tid := vsched.ThreadID()
				prevVia := w.via[tid]
				w.via[tid] = "child" // constructor calls made for the child scope's own initializers
				w.mu.Unlock()
				_, err := sc.CreateScope(nil)
				w.mu.Lock()
				w.via[tid] = prevVia
				if err != nil {
					call.Nested = append(call.Nested, Arg{Kind: "err:" + ClassOf(err)})
				} else {
					call.Nested = append(call.Nested, Arg{Kind: "child-scope"})
				}
				break
			}
		}
		fault := w.Faults[fmt.Sprintf("%d:%d", r.ID, call.Serial)]
		if fault == "" {
			fault = w.Faults[fmt.Sprintf("%d:*", r.ID)]
		}
		finish := func(outcome string) {
			call.Outcome = outcome
			call.End = w.tick()
			w.Events = append(w.Events, Event{Stamp: call.End, Kind: "ctor-end", Call: call, Thread: call.Thread, Note: outcome})
		}
		nout := ft.NumOut()
		res := make([]reflect.Value, nout)
		for i := 0; i < nout; i++ {
			res[i] = reflect.Zero(ft.Out(i))
		}
		if fault == "cancel-build" {
			// the constructor (or something running concurrently with it, e.g. a build timeout)
			// cancels the context Build was started with; the constructor itself succeeds
			if w.CancelBuild != nil {
				w.CancelBuild()
			}
			fault = ""
		}
		if strings.HasPrefix(fault, "panic") {
			finish("panic")
			var pv any
			switch fault {
			case "panic:error":
				pv = &InjErr{What: "panic", Reg: r.ID, Serial: call.Serial}
			case "panic:struct":
				pv = struct{ A, B int }{r.ID, call.Serial}
			case "panic:nil":
				pv = nil
			default:
				pv = fmt.Sprintf("injected panic r%d#%d", r.ID, call.Serial)
			}
			w.PanicVals = append(w.PanicVals, pv)
			w.mu.Unlock()
			panic(pv)
		}
		defer w.mu.Unlock()
		if (fault == "err" || fault == "err:disposed") && (r.Err || r.Kind == "voiderr") {
			e := &InjErr{What: "ctor", Reg: r.ID, Serial: call.Serial}
			w.InjErrs = append(w.InjErrs, e)
			var ev error = e
			if fault == "err:disposed" {
				// the constructor's own error wraps the disposed sentinel of SOME OTHER scope (user code
				// that used an expired long-lived scope): not a statement about the scope under construction
				ev = fmt.Errorf("warm-up through an expired session: %w", errors.Join(e, godi.ErrScopeDisposed))
			}
			res[nout-1] = reflect.ValueOf(ev).Convert(errType)
			finish("err")
			return res
		}
		if fault == "nil" {
			finish("nil")
			return res
		}
		nilOut := -1
		if strings.HasPrefix(fault, "nil:") {
			fmt.Sscanf(fault, "nil:%d", &nilOut)
		}
		switch r.Kind {
		case "void", "voiderr":
		default:
			if r.ResObj {
				sv := reflect.New(ft.Out(0)).Elem()
				for i, o := range r.Outs {
					if i == nilOut {
						continue
					}
					in, val := w.newInst(r, call, i, concAt(o, call.Serial))
					call.Outs = append(call.Outs, in)
					sv.Field(i + 1).Set(reflect.ValueOf(val))
				}
				res[0] = sv
			} else {
				for i, o := range r.Outs {
					if i == nilOut {
						continue // this output stays a typed nil
					}
					in, val := w.newInst(r, call, i, concAt(o, call.Serial))
					if r.CloseScope {
						for _, a := range call.Args {
							if a.Kind == "scope" {
								in.reclose, _ = a.Ref.(godi.Scope)
							}
						}
					}
					call.Outs = append(call.Outs, in)
					v := reflect.New(ft.Out(i)).Elem()
					v.Set(reflect.ValueOf(val))
					res[i] = v
				}
			}
		}
		finish("ok")
		return res
	}
}

// Fn returns (creating once per world) the function value / instance that is
// registered for r.
func (w *World) Fn(r *Reg) any {
	if f, ok := w.fns[r.ID]; ok {
		return f
	}
	var f any
	if r.Kind == "instance" {
		in, val := w.newInst(r, nil, 0, concOf(r.Outs[0]))
		in.Given = true
		f = val
		w.given[r.ID] = val
	} else {
		ft := FuncType(r)
		f = reflect.MakeFunc(ft, w.Body(r, ft)).Interface()
	}
	w.fns[r.ID] = f
	return f
}

// SetFn overrides the function value used for a registration (C04 function kinds).
func (w *World) SetFn(id int, f any) { w.fns[id] = f }

var asOpts = map[string]godi.AddOption{
	"IA": godi.As[IA](),
	"IB": godi.As[IB](),
}

// Options builds the godi options of a registration.
func Options(r *Reg) []godi.AddOption {
	var opts []godi.AddOption
	if r.Name != "" {
		opts = append(opts, godi.Name(r.Name))
	}
	if r.Group != "" {
		opts = append(opts, godi.Group(r.Group))
	}
	for _, a := range r.As {
		o, ok := asOpts[a]
		if !ok {
			panic("kit: unknown As " + a)
		}
		opts = append(opts, o)
	}
	return opts
}

// Add registers r on c.
func (w *World) Add(c godi.Collection, r *Reg) error {
	f := w.Fn(r)
	opts := Options(r)
	switch r.Life {
	case "singleton":
		return c.AddSingleton(f, opts...)
	case "scoped":
		return c.AddScoped(f, opts...)
	case "transient":
		return c.AddTransient(f, opts...)
	}
	panic("kit: bad lifetime " + r.Life)
}

// Apply registers every registration of the spec, in order, and returns the
// per-registration errors.
func (w *World) regByID(id int) *Reg {
	for i := range w.Spec.Regs {
		if w.Spec.Regs[i].ID == id {
			return &w.Spec.Regs[i]
		}
	}
	return nil
}

// OpBegin / OpEnd bracket a resolution or scope creation issued by a harness thread
// (see Reg.CloseJoins).
func (w *World) OpBegin() {
	w.mu.Lock()
	if w.inflight == nil {
		w.inflight = map[int]int{}
	}
	w.inflight[vsched.ThreadID()]++
	w.mu.Unlock()
}

func (w *World) OpEnd() {
	w.mu.Lock()
	w.inflight[vsched.ThreadID()]--
	w.mu.Unlock()
}

func (w *World) Apply(c godi.Collection) []error {
	errs := make([]error, len(w.Spec.Regs))
	for i := range w.Spec.Regs {
		for _, d := range w.Spec.Regs[i].RemoveFirst {
			if d.Key != "" {
				c.RemoveKeyed(TypeOf(d.T), d.Key)
			} else {
				c.Remove(TypeOf(d.T))
			}
		}
		errs[i] = w.Add(c, &w.Spec.Regs[i])
	}
	return errs
}

// ---------------------------------------------------------------- errors

// Classify returns the documented error classes an error belongs to.
func Classify(err error) []string {
	if err == nil {
		return nil
	}
	var out []string
	if errors.Is(err, godi.ErrServiceNotFound) {
		out = append(out, "notfound")
	}
	if errors.Is(err, godi.ErrScopeDisposed) {
		out = append(out, "scope-disposed")
	}
	if errors.Is(err, godi.ErrProviderDisposed) {
		out = append(out, "provider-disposed")
	}
	var ce *godi.CircularDependencyError
	if errors.As(err, &ce) {
		out = append(out, "circular")
	}
	var ce2 godi.CircularDependencyError
	if errors.As(err, &ce2) {
		out = append(out, "circular")
	}
	var le *godi.LifetimeConflictError
	if errors.As(err, &le) {
		out = append(out, "lifetime")
	}
	var ae *godi.AlreadyRegisteredError
	if errors.As(err, &ae) {
		out = append(out, "already")
	}
	var pe *godi.ConstructorPanicError
	if errors.As(err, &pe) {
		out = append(out, "ctor-panic")
	}
	var ie *InjErr
	if errors.As(err, &ie) {
		out = append(out, "injected")
	}
	var de *godi.DisposalError
	if errors.As(err, &de) {
		out = append(out, "disposal")
	}
	if len(out) == 0 {
		out = append(out, "other")
	}
	sort.Strings(out)
	return dedup(out)
}

func dedup(s []string) []string {
	var out []string
	for i, x := range s {
		if i == 0 || s[i-1] != x {
			out = append(out, x)
		}
	}
	return out
}

func ClassOf(err error) string {
	if err == nil {
		return "ok"
	}
	return strings.Join(Classify(err), "+")
}

// Try runs f, converting a panic into a description.
func Try(f func()) (panicked any, did bool) {
	defer func() {
		if r := recover(); r != nil {
			panicked, did = r, true
		}
	}()
	f()
	return nil, false
}
