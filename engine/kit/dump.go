package kit

import (
	"fmt"
	"reflect"
	"sort"
	"strings"
	"unsafe"
)

// Dump renders the object graph reachable from v canonically: unexported
// fields are read through unsafe, maps are sorted by rendered key, pointers are
// replaced by first-visit ordinals, slice capacity is dropped, funcs and
// channels are reduced to nil/non-nil, reflect.Type prints its name. Fields
// whose name is listed in mask are printed as "_" (monotone id counters).
type Dumper struct {
	Mask     map[string]bool // "Type.field" -> masked
	SkipType map[string]bool // type names not descended into
	// structural rules (independent of field names), used where a comparison must ignore
	// caches, dirty flags, traversal marks and the order of unordered lists
	MaskBools        bool // every bool field and every map[...]bool field
	MaskPtrSlices    bool // every field that is a slice of pointers
	SortStructSlices bool // slices of (non-pointer) structs are rendered sorted
	// RootContainersOnly: of the ROOT struct only the container fields (maps, slices, pointers,
	// interfaces) are rendered. Scalar and struct-valued fields at the top level of a component are
	// flags, counters and cache entries derived from the containers (whatever their names or
	// representation), which the queries - not the dump - have to keep honest.
	RootContainersOnly bool
	rootDone           bool
	seen     map[unsafe.Pointer]int
	b        strings.Builder
	depth    int
}

// NewDumper returns a Dumper with the given masked fields.
func NewDumper(mask ...string) *Dumper {
	d := &Dumper{Mask: map[string]bool{}, seen: map[unsafe.Pointer]int{}}
	for _, m := range mask {
		d.Mask[m] = true
	}
	return d
}

// Render dumps v.
func (d *Dumper) Render(v any) string {
	d.val(reflect.ValueOf(v))
	return d.b.String()
}

func Dump(v any, mask ...string) string {
	d := &Dumper{Mask: map[string]bool{}, seen: map[unsafe.Pointer]int{}}
	for _, m := range mask {
		d.Mask[m] = true
	}
	d.val(reflect.ValueOf(v))
	return d.b.String()
}

var rtypeType = reflect.TypeOf((*reflect.Type)(nil)).Elem()
var reflectValueType = reflect.TypeOf(reflect.Value{})

func access(v reflect.Value) reflect.Value {
	if v.CanInterface() {
		return v
	}
	if v.CanAddr() {
		return reflect.NewAt(v.Type(), unsafe.Pointer(v.UnsafeAddr())).Elem()
	}
	return forceExported(v)
}

func (d *Dumper) val(v reflect.Value) {
	if !v.IsValid() {
		d.b.WriteString("<invalid>")
		return
	}
	d.depth++
	defer func() { d.depth-- }()
	if d.depth > 60 {
		d.b.WriteString("<deep>")
		return
	}
	if v.Kind() != reflect.Interface && v.Type().Implements(rtypeType) && v.Kind() == reflect.Pointer {
		// *reflect.rtype
		if v.IsNil() {
			d.b.WriteString("type(nil)")
			return
		}
		av := access(v)
		if av.CanInterface() {
			d.b.WriteString("type(" + av.Interface().(reflect.Type).String() + ")")
			return
		}
	}
	if v.Type() == reflectValueType {
		// a reflect.Value held by the object graph (e.g. a constructor): its type and,
		// for pointer-like kinds, the identity of what it refers to
		av := access(v)
		inner, ok := av.Interface().(reflect.Value)
		if !ok || !inner.IsValid() {
			d.b.WriteString("rv(invalid)")
			return
		}
		d.b.WriteString("rv(" + inner.Type().String())
		switch inner.Kind() {
		case reflect.Func, reflect.Pointer, reflect.Map, reflect.Chan, reflect.Slice, reflect.UnsafePointer:
			p := unsafe.Pointer(inner.Pointer())
			n, seen := d.seen[p]
			if !seen {
				n = len(d.seen)
				d.seen[p] = n
			}
			fmt.Fprintf(&d.b, "@#%d", n)
		}
		d.b.WriteString(")")
		return
	}
	switch v.Kind() {
	case reflect.Bool:
		fmt.Fprint(&d.b, v.Bool())
	case reflect.Int, reflect.Int8, reflect.Int16, reflect.Int32, reflect.Int64:
		fmt.Fprint(&d.b, v.Int())
	case reflect.Uint, reflect.Uint8, reflect.Uint16, reflect.Uint32, reflect.Uint64, reflect.Uintptr:
		fmt.Fprint(&d.b, v.Uint())
	case reflect.Float32, reflect.Float64:
		fmt.Fprint(&d.b, v.Float())
	case reflect.String:
		fmt.Fprintf(&d.b, "%q", v.String())
	case reflect.Func:
		if v.IsNil() {
			d.b.WriteString("func(nil)")
		} else {
			d.b.WriteString("func")
		}
	case reflect.Chan:
		if v.IsNil() {
			d.b.WriteString("chan(nil)")
		} else {
			d.b.WriteString("chan")
		}
	case reflect.UnsafePointer:
		d.b.WriteString("uptr")
	case reflect.Interface:
		if v.IsNil() {
			d.b.WriteString("nil")
			return
		}
		e := v.Elem()
		if e.Type().Implements(rtypeType) && e.Kind() == reflect.Pointer {
			d.val(e)
			return
		}
		d.b.WriteString("(" + e.Type().String() + ")")
		d.val(e)
	case reflect.Pointer:
		if v.IsNil() {
			d.b.WriteString("nil")
			return
		}
		p := unsafe.Pointer(v.Pointer())
		if n, ok := d.seen[p]; ok {
			fmt.Fprintf(&d.b, "&#%d", n)
			return
		}
		n := len(d.seen)
		d.seen[p] = n
		fmt.Fprintf(&d.b, "&#%d=", n)
		d.val(v.Elem())
	case reflect.Struct:
		t := v.Type()
		tn := t.Name()
		if t == instType || t == worldType {
			// the harness's own recorder objects (reachable through registered instance VALUES) are not godi state
			d.b.WriteString(tn + "{harness}")
			return
		}
		if d.SkipType[tn] {
			d.b.WriteString(tn + "{…}")
			return
		}
		d.b.WriteString(tn + "{")
		isRoot := d.RootContainersOnly && !d.rootDone
		d.rootDone = true
		for i := 0; i < v.NumField(); i++ {
			f := t.Field(i)
			if isRoot {
				switch f.Type.Kind() {
				case reflect.Map, reflect.Slice, reflect.Pointer, reflect.Interface:
				default:
					continue
				}
			}
			if i > 0 {
				d.b.WriteString(",")
			}
			d.b.WriteString(f.Name + ":")
			if d.Mask[tn+"."+f.Name] {
				d.b.WriteString("_")
				continue
			}
			if d.MaskBools && (f.Type.Kind() == reflect.Bool || (f.Type.Kind() == reflect.Map && f.Type.Elem().Kind() == reflect.Bool)) {
				d.b.WriteString("_")
				continue
			}
			if d.MaskPtrSlices && f.Type.Kind() == reflect.Slice && f.Type.Elem().Kind() == reflect.Pointer {
				d.b.WriteString("_")
				continue
			}
			d.val(d.field(v, i))
		}
		d.b.WriteString("}")
	case reflect.Slice:
		if v.IsNil() {
			d.b.WriteString("[]nil")
			return
		}
		fallthrough
	case reflect.Array:
		fmt.Fprintf(&d.b, "[%d:", v.Len())
		if d.SortStructSlices && v.Type().Elem().Kind() == reflect.Struct {
			var items []string
			for i := 0; i < v.Len(); i++ {
				sub := &Dumper{Mask: d.Mask, SkipType: d.SkipType, seen: d.seen, depth: d.depth, MaskBools: d.MaskBools, MaskPtrSlices: d.MaskPtrSlices, SortStructSlices: true}
				sub.val(v.Index(i))
				items = append(items, sub.b.String())
			}
			sort.Strings(items)
			d.b.WriteString(strings.Join(items, ","))
			d.b.WriteString("]")
			return
		}
		for i := 0; i < v.Len(); i++ {
			if i > 0 {
				d.b.WriteString(",")
			}
			d.val(v.Index(i))
		}
		d.b.WriteString("]")
	case reflect.Map:
		if v.IsNil() {
			d.b.WriteString("map(nil)")
			return
		}
		type kv struct{ k, v string }
		var items []kv
		it := v.MapRange()
		for it.Next() {
			kd := &Dumper{Mask: d.Mask, SkipType: d.SkipType, seen: d.seen, depth: d.depth, MaskBools: d.MaskBools, MaskPtrSlices: d.MaskPtrSlices, SortStructSlices: d.SortStructSlices}
			kd.val(it.Key())
			vd := &Dumper{Mask: d.Mask, SkipType: d.SkipType, seen: map[unsafe.Pointer]int{}, depth: d.depth, MaskBools: d.MaskBools, MaskPtrSlices: d.MaskPtrSlices, SortStructSlices: d.SortStructSlices}
			// values are rendered with a private pointer table so that map order cannot influence ordinals
			vd.val(it.Value())
			items = append(items, kv{kd.b.String(), vd.b.String()})
		}
		sort.Slice(items, func(i, j int) bool { return items[i].k < items[j].k })
		d.b.WriteString("map{")
		for i, e := range items {
			if i > 0 {
				d.b.WriteString(",")
			}
			d.b.WriteString(e.k + "=>" + e.v)
		}
		d.b.WriteString("}")
	default:
		d.b.WriteString("?" + v.Kind().String())
	}
}

// field returns struct field i in a form whose contents can be read even when
// it is unexported.
func (d *Dumper) field(v reflect.Value, i int) reflect.Value {
	f := v.Field(i)
	if f.CanInterface() {
		return f
	}
	if f.CanAddr() {
		return reflect.NewAt(f.Type(), unsafe.Pointer(f.UnsafeAddr())).Elem()
	}
	// make an addressable copy of the parent and retry
	c := reflect.New(v.Type()).Elem()
	c.Set(forceExported(v))
	f = c.Field(i)
	return reflect.NewAt(f.Type(), unsafe.Pointer(f.UnsafeAddr())).Elem()
}

// forceExported clears the read-only flag of a reflect.Value obtained through
// an unexported field so that it can be copied.
func forceExported(v reflect.Value) reflect.Value {
	type rv struct {
		typ  unsafe.Pointer
		ptr  unsafe.Pointer
		flag uintptr
	}
	const flagRO = 1<<5 | 1<<6
	p := (*rv)(unsafe.Pointer(&v))
	p.flag &^= flagRO
	return v
}
