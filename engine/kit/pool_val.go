package kit

import "reflect"

// V0 is a NON-pointer service type: instance registrations of plain values
// (configuration structs, named strings ...). The value carries its recorder
// identity, so copies of it still say which registration they came from.
type V0 struct{ I *Inst }

func (x V0) Who() *Inst { return x.I }

func init() {
	poolTypes["V0"] = reflect.TypeOf(V0{})
}
