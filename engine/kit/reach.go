package kit

import (
	"reflect"
	"strings"
	"unsafe"
)

// Reach returns the set of heap objects (pointers, maps, slices' backing
// arrays, channels, funcs' closures are not followed) reachable from root by
// following pointers, interfaces, struct fields, map keys/values and slice
// elements - including unexported fields. Runtime type descriptors and
// reflect.Value internals are not descended into.
func Reach(root any) map[unsafe.Pointer]bool {
	seen := map[unsafe.Pointer]bool{}
	var visit func(v reflect.Value, depth int)
	visit = func(v reflect.Value, depth int) {
		if !v.IsValid() || depth > 200 {
			return
		}
		t := v.Type()
		if pp := t.PkgPath(); pp == "reflect" || strings.HasPrefix(pp, "internal/") {
			return
		}
		if t == instType || t == worldType {
			return // the harness recorder is not part of the container's object graph
		}
		switch v.Kind() {
		case reflect.Pointer:
			if v.IsNil() {
				return
			}
			p := unsafe.Pointer(v.Pointer())
			if seen[p] {
				return
			}
			seen[p] = true
			et := t.Elem()
			if pp := et.PkgPath(); pp == "reflect" || strings.HasPrefix(pp, "internal/") {
				return
			}
			if et == instType || et == worldType {
				return
			}
			visit(v.Elem(), depth+1)
		case reflect.Interface:
			if v.IsNil() {
				return
			}
			visit(access(v).Elem(), depth+1)
		case reflect.Struct:
			for i := 0; i < v.NumField(); i++ {
				f := v.Field(i)
				if !f.CanInterface() {
					if f.CanAddr() {
						f = reflect.NewAt(f.Type(), unsafe.Pointer(f.UnsafeAddr())).Elem()
					} else {
						f = forceExported(f)
					}
				}
				visit(f, depth+1)
			}
		case reflect.Map:
			if v.IsNil() {
				return
			}
			p := unsafe.Pointer(v.Pointer())
			if seen[p] {
				return
			}
			seen[p] = true
			it := forceExported(v).MapRange()
			for it.Next() {
				visit(it.Key(), depth+1)
				visit(it.Value(), depth+1)
			}
		case reflect.Slice:
			if v.IsNil() || v.Len() == 0 {
				return
			}
			fallthrough
		case reflect.Array:
			for i := 0; i < v.Len(); i++ {
				visit(v.Index(i), depth+1)
			}
		}
	}
	visit(reflect.ValueOf(root), 0)
	return seen
}

var instType = reflect.TypeOf(Inst{})
var worldType = reflect.TypeOf(World{})

// PtrOf returns the pointer identity of a pointer-shaped value (nil otherwise).
func PtrOf(x any) unsafe.Pointer {
	if x == nil {
		return nil
	}
	v := reflect.ValueOf(x)
	switch v.Kind() {
	case reflect.Pointer, reflect.Map, reflect.Chan, reflect.Func, reflect.UnsafePointer:
		return unsafe.Pointer(v.Pointer())
	}
	return nil
}
