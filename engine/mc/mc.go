// Package mc holds the exploration drivers and the reporting plumbing shared by
// all property checks: the preemption/deviation-bounded DFS over vsched
// executions, job sharding over worker processes, known-finding matching,
// evidence and replay files.
package mc

import (
	"encoding/json"
	"fmt"
	"os"
	"sort"
	"strings"
	"time"

	"github.com/junioryono/godi/v4/internal/vsched"
)

// Bounds of one schedule exploration.
type Bounds struct {
	Preempt  int  // max preemptions
	OrderDev int  // max non-identity map-range permutations
	MaxPerm  int  // cap on alternatives per map range (0 = all)
	NoRace   bool // disable the happens-before detector
	NoPrune  bool // disable happens-before state caching
	Shard    int  // this process explores the top-level branches with index % NShards == Shard
	NShards  int  // 0/1 = no sharding
	MaxExec  int  // budget (0 = none); hitting it marks the run capped
	Deadline time.Time
}

// Stats of one exploration.
type Stats struct {
	Executions  int64
	Transitions int64 // scheduling steps executed
	Points      int64 // recorded choice points
	ByPreempt   map[int]int64
	Capped      bool
	MaxThreads  int
	Switches    int64
	Pruned      int64 // subtrees cut because an equivalent state had been explored with at least the same remaining budget
	StatesSeen  int64 // distinct (happens-before) states at choice points
}

// Explore enumerates every schedule of body within the bounds: run(prefix)
// replays the prefix then takes choice 0 everywhere; every later point spawns
// the alternatives whose cumulative cost stays within the bounds. check is
// called after every execution; returning false stops the exploration.
func Explore(b Bounds, body func(), check func(s *vsched.Sched, cost [2]int) bool) Stats {
	st := Stats{ByPreempt: map[int]int64{}}
	stop := false
	type vkey struct {
		k   [2]uint64
		dev int
	}
	visited := map[vkey]int{}
	topIdx := -1
	var rec func(prefix []int, cost [2]int)
	rec = func(prefix []int, cost [2]int) {
		if stop {
			return
		}
		if (b.MaxExec > 0 && st.Executions >= int64(b.MaxExec)) || (!b.Deadline.IsZero() && time.Now().After(b.Deadline)) {
			st.Capped = true
			stop = true
			return
		}
		s := vsched.Run(prefix, func(s *vsched.Sched) { s.NoRace = b.NoRace; s.MaxPerm = b.MaxPerm }, body)
		if prefix == nil && b.NShards > 1 && b.Shard != 0 {
			// the root execution is accounted (and checked) by shard 0 only
			goto branches
		}
		st.Executions++
		st.Transitions += int64(s.Steps)
		st.Points += int64(len(s.Points))
		st.Switches += int64(s.Switches)
		st.ByPreempt[cost[0]]++
		if s.Fatal {
			fmt.Fprintln(os.Stderr, "mc: fatal:", s.Deadlock)
			os.Exit(43) // machinery: the scheduler itself gave up (not Go's exit status 2 of a runtime crash)
		}
		if s.Diverged != "" {
			fmt.Fprintln(os.Stderr, "mc: machinery error:", s.Diverged, "prefix", prefix)
			os.Exit(42)
		}
		if s.HitHor {
			st.Capped = true
		}
		if !check(s, cost) {
			stop = true
			return
		}
	branches:
		ch := s.Choices()
		pts := s.Points
		for i := len(prefix); i < len(pts); i++ {
			p := pts[i]
			if !b.NoPrune {
				// happens-before state caching: an equivalent state explored with at least
				// the same remaining budgets has the same default continuation and had all
				// its alternatives explored
				vk := vkey{p.Key, b.OrderDev - cost[1]}
				rem := b.Preempt - cost[0]
				if old, ok := visited[vk]; ok && old >= rem {
					st.Pruned++
					break
				}
				visited[vk] = rem
			}
			for alt := 1; alt < p.N; alt++ {
				c := cost
				if p.Kind == vsched.KindSched {
					if p.RunningEnabled {
						c[0]++
					}
				} else {
					c[1]++
				}
				if c[0] > b.Preempt || c[1] > b.OrderDev {
					continue
				}
				if prefix == nil && b.NShards > 1 {
					topIdx++
					if topIdx%b.NShards != b.Shard {
						continue
					}
				}
				np := make([]int, i+1)
				copy(np, ch[:i])
				np[i] = alt
				rec(np, c)
				if stop {
					return
				}
			}
		}
	}
	rec(nil, [2]int{})
	st.StatesSeen = int64(len(visited))
	return st
}

// RunOne runs a single execution with the given choices.
func RunOne(choices []int, b Bounds, body func()) *vsched.Sched {
	return vsched.Run(choices, func(s *vsched.Sched) { s.NoRace = b.NoRace; s.MaxPerm = b.MaxPerm; s.TraceOn = true }, body)
}

// ---------------------------------------------------------------- reporting

type Violation struct {
	Job      string            `json:"job"`
	Features map[string]string `json:"features"`
	Detail   string            `json:"detail"`
	Case     json.RawMessage   `json:"case"`
	Count    int64             `json:"count"`
}

func (v *Violation) Sig() string {
	ks := make([]string, 0, len(v.Features))
	for k := range v.Features {
		ks = append(ks, k)
	}
	sort.Strings(ks)
	var b strings.Builder
	for _, k := range ks {
		fmt.Fprintf(&b, "%s=%s;", k, v.Features[k])
	}
	return b.String()
}

// Report accumulates what a worker (or the coordinator) covered.
type Report struct {
	Prop        string           `json:"prop"`
	Tier        string           `json:"tier"`
	Jobs        []string         `json:"jobs"`
	Executions  int64            `json:"executions"`
	States      int64            `json:"states"`
	Transitions int64            `json:"transitions"`
	Validated   int64            `json:"validated"`
	Outcomes    map[string]int64 `json:"outcomes"`
	OutcomeH    map[uint64]int64 `json:"outcome_hashes"`
	OutcomeOverflow int64        `json:"outcome_overflow"`
	Violations  []*Violation     `json:"violations"`
	Samples     []any            `json:"samples"`
	Capped      bool             `json:"capped"`
	CapNotes    []string         `json:"cap_notes"`
	Notes       []string         `json:"notes"`
	Extra       map[string]int64 `json:"extra"`
	MachErr     []string         `json:"machinery_errors"`
	Only        json.RawMessage  `json:"-"` // replay: the single case to run
	curJob      string
	vioIdx      map[string]int
	Deadline    time.Time `json:"-"`
}

func NewReport(prop, tier string) *Report {
	return &Report{Prop: prop, Tier: tier, Outcomes: map[string]int64{}, Extra: map[string]int64{}, vioIdx: map[string]int{}}
}

func (r *Report) SetJob(j string) { r.curJob = j; r.Jobs = append(r.Jobs, j) }

// Outcome counts one execution's canonical observation string. Distinct
// outcomes are tracked exactly by 64-bit hash up to a cap (beyond it the
// distinct count becomes a lower bound); the strings of the first 256 distinct
// outcomes are kept as examples.
func (r *Report) Outcome(o string) {
	h := fnv64(o)
	if r.OutcomeH == nil {
		r.OutcomeH = map[uint64]int64{}
	}
	if _, ok := r.OutcomeH[h]; !ok && len(r.OutcomeH) >= outcomeCap {
		r.OutcomeOverflow++
		return
	}
	r.OutcomeH[h]++
	if _, ok := r.Outcomes[o]; ok || len(r.Outcomes) < 256 {
		r.Outcomes[o]++
	}
}

const outcomeCap = 400000

func fnv64(s string) uint64 {
	h := uint64(14695981039346656037)
	for i := 0; i < len(s); i++ {
		h ^= uint64(s[i])
		h *= 1099511628211
	}
	return h
}

// Distinct returns the number of distinct outcomes recorded (a lower bound if the cap was hit).
func (r *Report) Distinct() int64 { return int64(len(r.OutcomeH)) }

func (r *Report) Sample(s any) {
	if len(r.Samples) < 4 {
		r.Samples = append(r.Samples, s)
	}
}

func (r *Report) AddStats(s Stats) {
	r.Executions += s.Executions
	r.Transitions += s.Transitions
	r.Validated += s.Executions
	if s.Capped {
		r.Capped = true
		r.CapNotes = append(r.CapNotes, r.curJob)
	}
	r.Extra["switches"] += s.Switches
	r.Extra["hb_states"] += s.StatesSeen
	r.Extra["pruned_subtrees"] += s.Pruned
	r.States += s.StatesSeen
	for k, v := range s.ByPreempt {
		r.Extra[fmt.Sprintf("schedules_with_%d_preemptions", k)] += v
	}
}

// Violate records a violation; violations with identical features are merged
// (first case kept, count incremented).
func (r *Report) Violate(features map[string]string, detail string, c any) {
	v := &Violation{Job: r.curJob, Features: features, Detail: detail, Count: 1}
	sig := v.Sig()
	if i, ok := r.vioIdx[sig]; ok {
		r.Violations[i].Count++
		return
	}
	cb, _ := json.Marshal(c)
	v.Case = cb
	r.vioIdx[sig] = len(r.Violations)
	r.Violations = append(r.Violations, v)
}

func (r *Report) Merge(o *Report) {
	r.Jobs = append(r.Jobs, o.Jobs...)
	r.Executions += o.Executions
	r.States += o.States
	r.Transitions += o.Transitions
	r.Validated += o.Validated
	for k, v := range o.Outcomes {
		if _, ok := r.Outcomes[k]; ok || len(r.Outcomes) < 256 {
			r.Outcomes[k] += v
		}
	}
	if r.OutcomeH == nil {
		r.OutcomeH = map[uint64]int64{}
	}
	for k, v := range o.OutcomeH {
		if _, ok := r.OutcomeH[k]; !ok && len(r.OutcomeH) >= 8*outcomeCap {
			r.OutcomeOverflow++
			continue
		}
		r.OutcomeH[k] += v
	}
	r.OutcomeOverflow += o.OutcomeOverflow
	for k, v := range o.Extra {
		r.Extra[k] += v
	}
	for _, v := range o.Violations {
		sig := v.Sig()
		if i, ok := r.vioIdx[sig]; ok {
			r.Violations[i].Count += v.Count
			continue
		}
		r.vioIdx[sig] = len(r.Violations)
		r.Violations = append(r.Violations, v)
	}
	for _, s := range o.Samples {
		r.Sample(s)
	}
	if o.Capped {
		r.Capped = true
	}
	r.CapNotes = append(r.CapNotes, o.CapNotes...)
	r.Notes = append(r.Notes, o.Notes...)
	r.MachErr = append(r.MachErr, o.MachErr...)
}

// Job is one independently runnable part of a property check.
type Job struct {
	Name   string
	Run    func(r *Report)
	Weight int // scheduling hint: heavier jobs are started first
}

// Check is the registration of one property.
type Check struct {
	Prop        string
	Jobs        func(tier string) []Job
	Rule        string // how cases are enumerated / what counts as a distinct outcome
	Assume      []string
	MinOutcomes int // vacuity guard: at least this many distinct outcomes on the unchanged tree
}

var Registry = map[string]*Check{}

func Register(c *Check) { Registry[c.Prop] = c }

// ---------------------------------------------------------------- known findings

type Finding struct {
	ID       string            `json:"id"`
	Status   string            `json:"status"` // open | fixed
	Property string            `json:"property"`
	Match    map[string]string `json:"match,omitempty"`
	What     string            `json:"what"`
	Commit   string            `json:"commit,omitempty"`
}

type FindingsFile struct {
	Findings []Finding `json:"findings"`
}

func LoadFindings(path string) (*FindingsFile, error) {
	b, err := os.ReadFile(path)
	if err != nil {
		if os.IsNotExist(err) {
			return &FindingsFile{}, nil
		}
		return nil, err
	}
	var f FindingsFile
	if err := json.Unmarshal(b, &f); err != nil {
		return nil, err
	}
	return &f, nil
}

// Matches reports whether an open finding covers the violation: every key of
// Match must be present in the features with one of the '|'-separated values.
func (f *Finding) Matches(prop string, feat map[string]string) bool {
	if f.Status != "open" || f.Property != prop {
		return false
	}
	for k, want := range f.Match {
		contains := strings.HasSuffix(k, "~")
		got, ok := feat[strings.TrimSuffix(k, "~")]
		if !ok {
			return false
		}
		hit := false
		for _, alt := range strings.Split(want, "|") {
			if alt == got || (contains && strings.Contains(got, alt)) {
				hit = true
			}
		}
		if !hit {
			return false
		}
	}
	return true
}
