//go:build verif

// Package atomic is the scheduler-controlled stand-in for sync/atomic: every
// operation is a scheduling point and an acquire+release edge on the word's
// address (Go atomics are sequentially consistent); the real operation is used
// for storage.
package atomic

import (
	stdatomic "sync/atomic"
	"unsafe"

	"github.com/junioryono/godi/v4/internal/vsched"
)

func pt(p unsafe.Pointer, op string, write bool) { vsched.Atomic(p, op, write) }

func LoadInt32(addr *int32) int32 {
	pt(unsafe.Pointer(addr), "LoadInt32", false)
	return stdatomic.LoadInt32(addr)
}
func StoreInt32(addr *int32, val int32) {
	pt(unsafe.Pointer(addr), "StoreInt32", true)
	stdatomic.StoreInt32(addr, val)
}
func AddInt32(addr *int32, delta int32) int32 {
	pt(unsafe.Pointer(addr), "AddInt32", true)
	return stdatomic.AddInt32(addr, delta)
}
func SwapInt32(addr *int32, new int32) int32 {
	pt(unsafe.Pointer(addr), "SwapInt32", true)
	return stdatomic.SwapInt32(addr, new)
}
func CompareAndSwapInt32(addr *int32, old, new int32) bool {
	pt(unsafe.Pointer(addr), "CompareAndSwapInt32", true)
	return stdatomic.CompareAndSwapInt32(addr, old, new)
}
func AndInt32(addr *int32, mask int32) int32 {
	pt(unsafe.Pointer(addr), "AndInt32", true)
	return stdatomic.AndInt32(addr, mask)
}
func OrInt32(addr *int32, mask int32) int32 {
	pt(unsafe.Pointer(addr), "OrInt32", true)
	return stdatomic.OrInt32(addr, mask)
}

type Int32 struct {
	_ noCopy
	v int32
}

func (x *Int32) Load() int32                        { return LoadInt32(&x.v) }
func (x *Int32) Store(val int32)                    { StoreInt32(&x.v, val) }
func (x *Int32) Swap(new int32) int32               { return SwapInt32(&x.v, new) }
func (x *Int32) CompareAndSwap(old, new int32) bool { return CompareAndSwapInt32(&x.v, old, new) }
func (x *Int32) Add(delta int32) int32              { return AddInt32(&x.v, delta) }
func (x *Int32) And(mask int32) int32               { return AndInt32(&x.v, mask) }
func (x *Int32) Or(mask int32) int32                { return OrInt32(&x.v, mask) }

func LoadInt64(addr *int64) int64 {
	pt(unsafe.Pointer(addr), "LoadInt64", false)
	return stdatomic.LoadInt64(addr)
}
func StoreInt64(addr *int64, val int64) {
	pt(unsafe.Pointer(addr), "StoreInt64", true)
	stdatomic.StoreInt64(addr, val)
}
func AddInt64(addr *int64, delta int64) int64 {
	pt(unsafe.Pointer(addr), "AddInt64", true)
	return stdatomic.AddInt64(addr, delta)
}
func SwapInt64(addr *int64, new int64) int64 {
	pt(unsafe.Pointer(addr), "SwapInt64", true)
	return stdatomic.SwapInt64(addr, new)
}
func CompareAndSwapInt64(addr *int64, old, new int64) bool {
	pt(unsafe.Pointer(addr), "CompareAndSwapInt64", true)
	return stdatomic.CompareAndSwapInt64(addr, old, new)
}
func AndInt64(addr *int64, mask int64) int64 {
	pt(unsafe.Pointer(addr), "AndInt64", true)
	return stdatomic.AndInt64(addr, mask)
}
func OrInt64(addr *int64, mask int64) int64 {
	pt(unsafe.Pointer(addr), "OrInt64", true)
	return stdatomic.OrInt64(addr, mask)
}

type Int64 struct {
	_ noCopy
	v int64
}

func (x *Int64) Load() int64                        { return LoadInt64(&x.v) }
func (x *Int64) Store(val int64)                    { StoreInt64(&x.v, val) }
func (x *Int64) Swap(new int64) int64               { return SwapInt64(&x.v, new) }
func (x *Int64) CompareAndSwap(old, new int64) bool { return CompareAndSwapInt64(&x.v, old, new) }
func (x *Int64) Add(delta int64) int64              { return AddInt64(&x.v, delta) }
func (x *Int64) And(mask int64) int64               { return AndInt64(&x.v, mask) }
func (x *Int64) Or(mask int64) int64                { return OrInt64(&x.v, mask) }

func LoadUint32(addr *uint32) uint32 {
	pt(unsafe.Pointer(addr), "LoadUint32", false)
	return stdatomic.LoadUint32(addr)
}
func StoreUint32(addr *uint32, val uint32) {
	pt(unsafe.Pointer(addr), "StoreUint32", true)
	stdatomic.StoreUint32(addr, val)
}
func AddUint32(addr *uint32, delta uint32) uint32 {
	pt(unsafe.Pointer(addr), "AddUint32", true)
	return stdatomic.AddUint32(addr, delta)
}
func SwapUint32(addr *uint32, new uint32) uint32 {
	pt(unsafe.Pointer(addr), "SwapUint32", true)
	return stdatomic.SwapUint32(addr, new)
}
func CompareAndSwapUint32(addr *uint32, old, new uint32) bool {
	pt(unsafe.Pointer(addr), "CompareAndSwapUint32", true)
	return stdatomic.CompareAndSwapUint32(addr, old, new)
}
func AndUint32(addr *uint32, mask uint32) uint32 {
	pt(unsafe.Pointer(addr), "AndUint32", true)
	return stdatomic.AndUint32(addr, mask)
}
func OrUint32(addr *uint32, mask uint32) uint32 {
	pt(unsafe.Pointer(addr), "OrUint32", true)
	return stdatomic.OrUint32(addr, mask)
}

type Uint32 struct {
	_ noCopy
	v uint32
}

func (x *Uint32) Load() uint32                        { return LoadUint32(&x.v) }
func (x *Uint32) Store(val uint32)                    { StoreUint32(&x.v, val) }
func (x *Uint32) Swap(new uint32) uint32              { return SwapUint32(&x.v, new) }
func (x *Uint32) CompareAndSwap(old, new uint32) bool { return CompareAndSwapUint32(&x.v, old, new) }
func (x *Uint32) Add(delta uint32) uint32             { return AddUint32(&x.v, delta) }
func (x *Uint32) And(mask uint32) uint32              { return AndUint32(&x.v, mask) }
func (x *Uint32) Or(mask uint32) uint32               { return OrUint32(&x.v, mask) }

func LoadUint64(addr *uint64) uint64 {
	pt(unsafe.Pointer(addr), "LoadUint64", false)
	return stdatomic.LoadUint64(addr)
}
func StoreUint64(addr *uint64, val uint64) {
	pt(unsafe.Pointer(addr), "StoreUint64", true)
	stdatomic.StoreUint64(addr, val)
}
func AddUint64(addr *uint64, delta uint64) uint64 {
	pt(unsafe.Pointer(addr), "AddUint64", true)
	return stdatomic.AddUint64(addr, delta)
}
func SwapUint64(addr *uint64, new uint64) uint64 {
	pt(unsafe.Pointer(addr), "SwapUint64", true)
	return stdatomic.SwapUint64(addr, new)
}
func CompareAndSwapUint64(addr *uint64, old, new uint64) bool {
	pt(unsafe.Pointer(addr), "CompareAndSwapUint64", true)
	return stdatomic.CompareAndSwapUint64(addr, old, new)
}
func AndUint64(addr *uint64, mask uint64) uint64 {
	pt(unsafe.Pointer(addr), "AndUint64", true)
	return stdatomic.AndUint64(addr, mask)
}
func OrUint64(addr *uint64, mask uint64) uint64 {
	pt(unsafe.Pointer(addr), "OrUint64", true)
	return stdatomic.OrUint64(addr, mask)
}

type Uint64 struct {
	_ noCopy
	v uint64
}

func (x *Uint64) Load() uint64                        { return LoadUint64(&x.v) }
func (x *Uint64) Store(val uint64)                    { StoreUint64(&x.v, val) }
func (x *Uint64) Swap(new uint64) uint64              { return SwapUint64(&x.v, new) }
func (x *Uint64) CompareAndSwap(old, new uint64) bool { return CompareAndSwapUint64(&x.v, old, new) }
func (x *Uint64) Add(delta uint64) uint64             { return AddUint64(&x.v, delta) }
func (x *Uint64) And(mask uint64) uint64              { return AndUint64(&x.v, mask) }
func (x *Uint64) Or(mask uint64) uint64               { return OrUint64(&x.v, mask) }

func LoadUintptr(addr *uintptr) uintptr {
	pt(unsafe.Pointer(addr), "LoadUintptr", false)
	return stdatomic.LoadUintptr(addr)
}
func StoreUintptr(addr *uintptr, val uintptr) {
	pt(unsafe.Pointer(addr), "StoreUintptr", true)
	stdatomic.StoreUintptr(addr, val)
}
func AddUintptr(addr *uintptr, delta uintptr) uintptr {
	pt(unsafe.Pointer(addr), "AddUintptr", true)
	return stdatomic.AddUintptr(addr, delta)
}
func SwapUintptr(addr *uintptr, new uintptr) uintptr {
	pt(unsafe.Pointer(addr), "SwapUintptr", true)
	return stdatomic.SwapUintptr(addr, new)
}
func CompareAndSwapUintptr(addr *uintptr, old, new uintptr) bool {
	pt(unsafe.Pointer(addr), "CompareAndSwapUintptr", true)
	return stdatomic.CompareAndSwapUintptr(addr, old, new)
}
func AndUintptr(addr *uintptr, mask uintptr) uintptr {
	pt(unsafe.Pointer(addr), "AndUintptr", true)
	return stdatomic.AndUintptr(addr, mask)
}
func OrUintptr(addr *uintptr, mask uintptr) uintptr {
	pt(unsafe.Pointer(addr), "OrUintptr", true)
	return stdatomic.OrUintptr(addr, mask)
}

type Uintptr struct {
	_ noCopy
	v uintptr
}

func (x *Uintptr) Load() uintptr                        { return LoadUintptr(&x.v) }
func (x *Uintptr) Store(val uintptr)                    { StoreUintptr(&x.v, val) }
func (x *Uintptr) Swap(new uintptr) uintptr             { return SwapUintptr(&x.v, new) }
func (x *Uintptr) CompareAndSwap(old, new uintptr) bool { return CompareAndSwapUintptr(&x.v, old, new) }
func (x *Uintptr) Add(delta uintptr) uintptr            { return AddUintptr(&x.v, delta) }
func (x *Uintptr) And(mask uintptr) uintptr             { return AndUintptr(&x.v, mask) }
func (x *Uintptr) Or(mask uintptr) uintptr              { return OrUintptr(&x.v, mask) }

type noCopy struct{}

func (*noCopy) Lock()   {}
func (*noCopy) Unlock() {}

func LoadPointer(addr *unsafe.Pointer) unsafe.Pointer {
	pt(unsafe.Pointer(addr), "LoadPointer", false)
	return stdatomic.LoadPointer(addr)
}
func StorePointer(addr *unsafe.Pointer, val unsafe.Pointer) {
	pt(unsafe.Pointer(addr), "StorePointer", true)
	stdatomic.StorePointer(addr, val)
}
func SwapPointer(addr *unsafe.Pointer, new unsafe.Pointer) unsafe.Pointer {
	pt(unsafe.Pointer(addr), "SwapPointer", true)
	return stdatomic.SwapPointer(addr, new)
}
func CompareAndSwapPointer(addr *unsafe.Pointer, old, new unsafe.Pointer) bool {
	pt(unsafe.Pointer(addr), "CompareAndSwapPointer", true)
	return stdatomic.CompareAndSwapPointer(addr, old, new)
}

type Bool struct {
	_ noCopy
	v uint32
}

func b32(b bool) uint32 {
	if b {
		return 1
	}
	return 0
}
func (x *Bool) Load() bool         { return LoadUint32(&x.v) != 0 }
func (x *Bool) Store(val bool)     { StoreUint32(&x.v, b32(val)) }
func (x *Bool) Swap(new bool) bool { return SwapUint32(&x.v, b32(new)) != 0 }
func (x *Bool) CompareAndSwap(old, new bool) bool {
	return CompareAndSwapUint32(&x.v, b32(old), b32(new))
}

type Pointer[T any] struct {
	_ [0]*T
	_ noCopy
	v unsafe.Pointer
}

func (x *Pointer[T]) Load() *T       { return (*T)(LoadPointer(&x.v)) }
func (x *Pointer[T]) Store(val *T)   { StorePointer(&x.v, unsafe.Pointer(val)) }
func (x *Pointer[T]) Swap(new *T) *T { return (*T)(SwapPointer(&x.v, unsafe.Pointer(new))) }
func (x *Pointer[T]) CompareAndSwap(old, new *T) bool {
	return CompareAndSwapPointer(&x.v, unsafe.Pointer(old), unsafe.Pointer(new))
}

type Value struct {
	real stdatomic.Value
}

func (v *Value) Load() any        { pt(unsafe.Pointer(v), "Value.Load", false); return v.real.Load() }
func (v *Value) Store(val any)    { pt(unsafe.Pointer(v), "Value.Store", true); v.real.Store(val) }
func (v *Value) Swap(new any) any { pt(unsafe.Pointer(v), "Value.Swap", true); return v.real.Swap(new) }
func (v *Value) CompareAndSwap(old, new any) bool {
	pt(unsafe.Pointer(v), "Value.CompareAndSwap", true)
	return v.real.CompareAndSwap(old, new)
}
