//go:build verif

// Package vsched is a cooperative scheduler for stateless, preemption-bounded
// exploration of the real godi code (CHESS style).  godi's sources are rebuilt
// with sync / sync/atomic / go statements / <-ctx.Done() / map ranges redirected
// here (see /verif/rw).  Exactly one logical thread runs between scheduling
// points; every decision (which enabled thread continues, which permutation a
// map range uses) is a recorded choice that the explorer can replay or vary.
//
// When no execution is active (Cur()==nil) every shim falls through to the real
// primitive, so the same binary also runs godi free of the scheduler.
package vsched

import (
	"context"
	"fmt"
	"runtime"
	"runtime/debug"
	"sort"
	"strings"
	"time"
	"unsafe"
)

// PointKind distinguishes the two kinds of recorded choices.
const (
	KindSched = 0 // which enabled thread continues
	KindPerm  = 1 // which permutation a map range uses
)

// PointRec is one recorded choice point of an execution.
type PointRec struct {
	Kind           int
	N              int       // number of alternatives
	Chosen         int       // alternative taken
	RunningEnabled bool      // KindSched: alternative 0 is "the running thread continues"
	Key            [2]uint64 // hash of the global state before the choice (happens-before graph + harness log)
	Tids           []int     // KindSched: thread ids of the alternatives, canonical order
	Op             string
}

type thread struct {
	id     int
	name   string
	wake   chan struct{}
	done   bool
	pred   func() bool // enabledness of the pending operation (nil = enabled)
	op     string
	daemon bool // parked in WaitDone: does not count for deadlock
	vc     VC
	relVC  VC // WaitDone: clock of the step that made the context done
	panicV any
	stack  string
	ran    int // number of steps executed
	exited chan struct{}
}

// Handle identifies a spawned thread (for Join).
type Handle struct{ t *thread }

// Sched is one controlled execution.
type Sched struct {
	threads  []*thread
	running  *thread
	prefix   []int
	Points   []PointRec
	aborting bool
	finished chan struct{}
	Fatal    bool // the process state is no longer usable (watchdog fired)

	Steps    int
	Horizon  int
	HitHor   bool
	Deadlock string // non-empty: description of a deadlock
	Diverged string // non-empty: replay divergence (machinery error)
	Panics   []string
	Races    []Race
	raceSeen map[string]bool
	Leaked   []string // threads still parked in WaitDone at the end
	Trace    []string // optional event trace
	TraceOn  bool
	NoRace   bool

	shadow   map[unsafe.Pointer]*shadow
	syncVC   map[unsafe.Pointer]*VC
	ptrOrd   map[unsafe.Pointer]int
	multi    bool      // a second thread has been started (before that nothing can race or interleave)
	enBuf    []*thread
	hbSum    [2]uint64 // commutative hash of executed events (thread, index, clock)
	noteHash uint64    // order-dependent hash of harness-visible events
	Switches int       // number of times control moved between threads
	MaxPerm  int       // cap on alternatives at a map range (0 = default)
	Ambig    int       // map ranges whose canonical key order had ties
}

var cur *Sched

// Cur returns the active execution or nil.
func Cur() *Sched { return cur }

// Active reports whether a controlled execution is running.
func Active() bool { return cur != nil && !cur.aborting }

type goexit struct{}

// Run executes body as thread 0 under a fresh scheduler, following prefix and
// then choice 0 everywhere, and returns the finished execution.
func Run(prefix []int, opts func(*Sched), body func()) *Sched {
	if cur != nil {
		panic("vsched: nested Run")
	}
	s := &Sched{
		prefix:   prefix,
		finished: make(chan struct{}),
		Horizon:  200000,
		shadow:   map[unsafe.Pointer]*shadow{},
		syncVC:   map[unsafe.Pointer]*VC{},
		ptrOrd:   map[unsafe.Pointer]int{},
		raceSeen: map[string]bool{},
	}
	if opts != nil {
		opts(s)
	}
	cur = s
	t := s.newThread("main", nil)
	s.running = t
	s.start(t, body)
	t.wake <- struct{}{}
	wd := time.NewTimer(60 * time.Second)
	select {
	case <-s.finished:
	case <-wd.C:
		// an operation blocked outside the scheduler's control
		s.Deadlock = "watchdog: execution blocked outside the scheduler for 60s (uncontrolled blocking construct)"
		buf := make([]byte, 1<<16)
		n := runtime.Stack(buf, true)
		s.Deadlock += "\n" + string(buf[:n])
		s.Fatal = true
		return s
	}
	wd.Stop()
	// abort everything still parked, one thread at a time
	s.aborting = true
	for i := 0; i < len(s.threads); i++ {
		th := s.threads[i]
		select {
		case <-th.exited:
			continue
		default:
		}
		if !th.done {
			if th.daemon {
				s.Leaked = append(s.Leaked, fmt.Sprintf("t%d:%s", th.id, th.op))
			}
			select {
			case th.wake <- struct{}{}:
			default:
			}
		}
		<-th.exited
	}
	cur = nil
	return s
}

func (s *Sched) newThread(name string, parent *thread) *thread {
	t := &thread{id: len(s.threads), name: name, wake: make(chan struct{}, 1), exited: make(chan struct{})}
	if parent != nil {
		t.vc = parent.vc.copy()
		parent.vc.tick(parent.id)
	}
	t.vc.tick(t.id)
	s.threads = append(s.threads, t)
	return t
}

func (s *Sched) start(t *thread, f func()) {
	go func() {
		defer close(t.exited)
		<-t.wake
		defer func() {
			if r := recover(); r != nil {
				t.panicV = r
				t.stack = string(debug.Stack())
				if !s.aborting {
					s.Panics = append(s.Panics, fmt.Sprintf("t%d(%s): %v", t.id, t.name, r))
				}
			}
			t.done = true
			if s.aborting {
				return
			}
			t.vc.tick(t.id)
			s.addEvent(t)
			s.schedule(nil, t)
		}()
		if s.aborting {
			return
		}
		f()
	}()
}

func (s *Sched) tracef(format string, a ...any) {
	if s.TraceOn {
		s.Trace = append(s.Trace, fmt.Sprintf(format, a...))
	}
}

func (s *Sched) nextChoice(n int, kind int) int {
	i := len(s.Points)
	c := 0
	if i < len(s.prefix) {
		c = s.prefix[i]
		if c < 0 || c >= n {
			s.Diverged = fmt.Sprintf("replay divergence at point %d: choice %d out of range (n=%d)", i, c, n)
			c = 0
		}
	}
	return c
}

// finish ends the execution (called by the thread that discovers the end).
func (s *Sched) finish() {
	select {
	case <-s.finished:
	default:
		close(s.finished)
	}
}

// schedule picks the next thread to run. t is the calling thread if it is
// still alive (parked at a point with t.pred set), exited is the calling
// thread if it just finished.
func (s *Sched) schedule(t *thread, exited *thread) {
	s.Steps++
	if s.Steps > s.Horizon {
		s.HitHor = true
		s.finishFrom(t)
		return
	}
	// note which waiters became released by the step that just ended
	stepper := t
	if stepper == nil {
		stepper = exited
	}
	for _, th := range s.threads {
		if th.daemon && !th.done && th.relVC == nil && th.pred != nil && th != stepper && th.pred() {
			th.relVC = stepper.vc.copy()
		}
	}
	enabled := s.enBuf[:0]
	if t != nil && (t.pred == nil || t.pred()) {
		enabled = append(enabled, t)
	}
	for _, th := range s.threads {
		if th == t || th.done {
			continue
		}
		if th.pred == nil || th.pred() {
			enabled = append(enabled, th)
		}
	}
	s.enBuf = enabled
	if len(enabled) == 0 {
		// end of execution or deadlock
		var stuck []string
		for _, th := range s.threads {
			if !th.done && !th.daemon {
				stuck = append(stuck, fmt.Sprintf("t%d(%s) blocked at %s", th.id, th.name, th.op))
			}
		}
		if len(stuck) > 0 {
			s.Deadlock = strings.Join(stuck, "; ")
		}
		s.finishFrom(t)
		return
	}
	idx := 0
	if len(enabled) > 1 {
		idx = s.nextChoice(len(enabled), KindSched)
		var tids []int
		if s.TraceOn {
			tids = make([]int, len(enabled))
			for i, th := range enabled {
				tids[i] = th.id
			}
		}
		op := ""
		if t != nil {
			op = t.op
		}
		rt := -1
		if t != nil {
			rt = t.id
		}
		s.Points = append(s.Points, PointRec{Kind: KindSched, N: len(enabled), Chosen: idx,
			RunningEnabled: t != nil && enabled[0] == t, Tids: tids, Op: op, Key: s.stateKey(rt)})
	}
	next := enabled[idx]
	if next == t {
		return
	}
	s.Switches++
	s.running = next
	next.wake <- struct{}{}
	if t != nil {
		<-t.wake
		if s.aborting {
			runtime.Goexit()
		}
	}
}

// finishFrom ends the execution from thread t's goroutine (t may be nil when
// the caller is an exiting thread).
func (s *Sched) finishFrom(t *thread) {
	s.finish()
	if t != nil {
		<-t.wake
		if s.aborting {
			runtime.Goexit()
		}
	}
}

// point is a scheduling point: the running thread is about to perform an
// operation that is enabled iff pred() (nil = always).
func (s *Sched) point(op string, pred func() bool) {
	t := s.running
	if !s.multi && (pred == nil || pred()) {
		// single-threaded prefix: nothing to choose, nothing to order
		s.Steps++
		t.ran++
		if s.Steps > s.Horizon {
			s.HitHor = true
			s.finishFrom(t)
		}
		return
	}
	s.addEvent(t)
	t.pred = pred
	t.op = op
	s.schedule(t, nil)
	t.pred = nil
	t.ran++
	if s.TraceOn {
		s.tracef("t%d %s", t.id, op)
	}
}

// ---------------------------------------------------------------- public API

// Yield is a plain scheduling point (harness constructors / Close methods /
// handlers call it on entry: the places where godi calls user code).
func Yield(what string) {
	s := cur
	if s == nil {
		runtime.Gosched() // free-running (auxiliary -race pass): let the other goroutines in
		return
	}
	if s.aborting {
		return
	}
	s.point(what, nil)
}

// Go starts f as a new logical thread.
func Go(f func()) *Handle {
	s := cur
	if s == nil || s.aborting {
		go f()
		return &Handle{}
	}
	parent := s.running
	s.multi = true
	t := s.newThread("go", parent)
	s.start(t, f)
	s.point("go", nil)
	return &Handle{t: t}
}

// GoNamed is Go with a thread name for traces.
func GoNamed(name string, f func()) *Handle {
	h := Go(f)
	if h.t != nil {
		h.t.name = name
	}
	return h
}

// Join blocks until the thread behind h has finished.
func Join(h *Handle) {
	s := cur
	if s == nil || s.aborting || h == nil || h.t == nil {
		return
	}
	s.point("join", func() bool { return h.t.done })
	s.running.vc.join(h.t.vc)
}

// WaitDone replaces the blocking receive `<-ctx.Done()`.
func WaitDone(ctx context.Context) {
	s := cur
	if s == nil || s.aborting {
		<-ctx.Done()
		return
	}
	t := s.running
	t.daemon = true
	t.relVC = nil
	if ctx.Err() != nil {
		// already done: ordered after whoever cancelled; we do not know who, be
		// conservative and join nothing (cancel happened-before via ctx itself
		// is real synchronisation; use the global cancel clock)
		t.relVC = s.cancelClock()
	}
	s.point("waitdone", func() bool { return ctx.Err() != nil })
	t.daemon = false
	if t.relVC != nil {
		t.vc.join(t.relVC)
	}
	t.relVC = nil
}

func (s *Sched) cancelClock() VC {
	// join of all thread clocks: whoever cancelled did so before now
	var v VC
	for _, th := range s.threads {
		v.join(th.vc)
	}
	return v
}

// Settle blocks the caller until no other thread is enabled (all others are
// finished or blocked).  Harness-only; at most one thread may use it.
func Settle() {
	s := cur
	if s == nil || s.aborting {
		return
	}
	me := s.running
	s.point("settle", func() bool {
		for _, th := range s.threads {
			if th == me || th.done {
				continue
			}
			if th.pred == nil || th.pred() {
				return false
			}
		}
		return true
	})
	// settle is a harness-level barrier: order after everything that ran
	for _, th := range s.threads {
		if th != me {
			me.vc.join(th.vc)
		}
	}
}

// LiveThreads returns the number of threads that are neither finished nor the
// caller (parked watchers included).
func LiveThreads() int {
	s := cur
	if s == nil {
		return 0
	}
	n := 0
	for _, th := range s.threads {
		if !th.done && th != s.running {
			n++
		}
	}
	return n
}

// ThreadID returns the running logical thread's id (-1 outside an execution).
func ThreadID() int {
	s := cur
	if s == nil {
		return -1
	}
	return s.running.id
}

// Choose records an explorer-controlled choice among n alternatives with the
// given kind (KindPerm costs one order deviation when non-zero).
func Choose(n int, op string) int {
	s := cur
	if s == nil || s.aborting || n <= 1 {
		return 0
	}
	c := s.nextChoice(n, KindPerm)
	s.Points = append(s.Points, PointRec{Kind: KindPerm, N: n, Chosen: c, Op: op, Key: s.stateKey(s.running.id)})
	s.noteHash = mix64(s.noteHash^uint64(c+1)*0x9e3779b97f4a7c15, uint64(n))
	return c
}

// Choices returns the choices taken by the execution.
func (s *Sched) Choices() []int {
	out := make([]int, len(s.Points))
	for i, p := range s.Points {
		out[i] = p.Chosen
	}
	return out
}

// SortedStrings is a helper for canonical output.
func SortedStrings(m map[string]bool) []string {
	out := make([]string, 0, len(m))
	for k := range m {
		out = append(out, k)
	}
	sort.Strings(out)
	return out
}

func mix64(a, b uint64) uint64 {
	x := a ^ (b + 0x9e3779b97f4a7c15 + (a << 6) + (a >> 2))
	x ^= x >> 33
	x *= 0xff51afd7ed558ccd
	x ^= x >> 33
	x *= 0xc4ceb9fe1a85ec53
	x ^= x >> 33
	return x
}

// addEvent folds the step thread t just completed into the commutative
// happens-before hash: (thread, step index, vector clock after the step).
func (s *Sched) addEvent(t *thread) {
	h1 := mix64(uint64(t.id)<<32|uint64(t.ran), 0x1234567)
	h2 := mix64(uint64(t.ran)<<32|uint64(t.id), 0x89abcdef)
	for i, c := range t.vc {
		h1 = mix64(h1, uint64(i)<<32|uint64(c))
		h2 = mix64(h2^0x5555, uint64(c)<<32|uint64(i))
	}
	s.hbSum[0] += h1
	s.hbSum[1] += h2
}

func (s *Sched) stateKey(running int) [2]uint64 {
	return [2]uint64{mix64(s.hbSum[0], s.noteHash) ^ uint64(running+7)*0x9e3779b97f4a7c15, mix64(s.hbSum[1], s.noteHash+uint64(running+1))}
}

// Note folds a harness-visible event (recorder entry, observed value) into the
// order-dependent part of the state key, so that two schedules are only
// merged by the explorer when the harness log is identical as well.
func Note(h uint64) {
	if s := cur; s != nil && !s.aborting {
		s.noteHash = mix64(s.noteHash, h)
	}
}

// NoteString is Note for strings.
func NoteString(x string) {
	if s := cur; s != nil && !s.aborting {
		h := uint64(1469598103934665603)
		for i := 0; i < len(x); i++ {
			h ^= uint64(x[i])
			h *= 1099511628211
		}
		s.noteHash = mix64(s.noteHash, h)
	}
}

// AfterFunc replaces context.AfterFunc: f runs in its own logical thread once
// ctx is done; the returned stop function prevents that if it has not started.
func AfterFunc(ctx context.Context, f func()) (stop func() bool) {
	s := cur
	if s == nil || s.aborting {
		return context.AfterFunc(ctx, f)
	}
	stopped, started := false, false
	Go(func() {
		WaitDoneOr(ctx, func() bool { return stopped })
		if stopped {
			return
		}
		started = true
		f()
	})
	return func() bool {
		if started || stopped {
			return false
		}
		stopped = true
		return true
	}
}

// WaitUntil blocks the calling thread until pred() holds (user code waiting for
// another goroutine, e.g. a Close method joining its background worker). Unlike
// a parked watcher the waiter is NOT a daemon: if pred can never become true the
// execution is a deadlock.
func WaitUntil(op string, pred func() bool) {
	s := cur
	if s == nil || s.aborting {
		for !pred() {
			runtime.Gosched()
		}
		return
	}
	me := s.running
	s.point(op, pred)
	// whoever made pred true did so before now
	for _, th := range s.threads {
		if th != me {
			me.vc.join(th.vc)
		}
	}
}

// WaitDoneOr is WaitDone that also wakes up when alt() becomes true.
func WaitDoneOr(ctx context.Context, alt func() bool) {
	s := cur
	if s == nil || s.aborting {
		<-ctx.Done()
		return
	}
	t := s.running
	t.daemon = true
	t.relVC = nil
	if ctx.Err() != nil {
		t.relVC = s.cancelClock()
	}
	s.point("waitdone", func() bool { return ctx.Err() != nil || alt() })
	t.daemon = false
	if t.relVC != nil {
		t.vc.join(t.relVC)
	}
	t.relVC = nil
}
