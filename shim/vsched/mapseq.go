//go:build verif

package vsched

import (
	"fmt"
	"iter"
	"reflect"
	"sort"
	"strconv"
	"unsafe"
)

// MapSeq replaces `range m` for maps in godi's sources: it snapshots the keys,
// orders them canonically and applies the permutation chosen by the explorer
// (default identity).  Keys deleted meanwhile are skipped and the current value
// is yielded, as Go does.  Outside a controlled execution the canonical order is
// used as well (Go allows any order), which makes sequential checks
// deterministic.
func MapSeq[K comparable, V any](m map[K]V) iter.Seq2[K, V] {
	return func(yield func(K, V) bool) {
		if len(m) == 0 {
			return
		}
		keys := make([]K, 0, len(m))
		for k := range m {
			keys = append(keys, k)
		}
		if len(keys) > 1 {
			order(keys)
		}
		for _, k := range keys {
			v, ok := m[k]
			if !ok {
				continue
			}
			if !yield(k, v) {
				return
			}
		}
	}
}

type keyed[K any] struct {
	k K
	c string
}

// BaseReverse flips the canonical base order (used to explore from a second,
// maximally different base order at zero deviation cost).
var BaseReverse bool

func order[K comparable](keys []K) {
	s := cur
	ks := make([]keyed[K], len(keys))
	for i, k := range keys {
		ks[i] = keyed[K]{k, canonKey(s, reflect.ValueOf(&k).Elem())}
	}
	sort.SliceStable(ks, func(i, j int) bool { return ks[i].c < ks[j].c })
	if s != nil {
		for i := 1; i < len(ks); i++ {
			if ks[i].c == ks[i-1].c {
				s.Ambig++
			}
		}
	}
	if BaseReverse {
		for i, j := 0, len(ks)-1; i < j; i, j = i+1, j-1 {
			ks[i], ks[j] = ks[j], ks[i]
		}
	}
	n := len(ks)
	if s != nil && !s.aborting && n > 1 {
		perms := permsFor(n, s.MaxPerm)
		c := Choose(len(perms), fmt.Sprintf("maprange[%d]", n))
		p := perms[c]
		tmp := make([]keyed[K], n)
		for i := range p {
			tmp[i] = ks[p[i]]
		}
		ks = tmp
	}
	for i := range ks {
		keys[i] = ks[i].k
	}
}

var permCache = map[[2]int][][]int{}

// permsFor returns the alternatives offered at a range over n keys: all n!
// permutations for n<=4 (identity first), otherwise identity, reverse, all
// rotations and all adjacent transpositions.
func permsFor(n, maxPerm int) [][]int {
	ck := [2]int{n, maxPerm}
	if p, ok := permCache[ck]; ok {
		return p
	}
	var out [][]int
	id := make([]int, n)
	for i := range id {
		id[i] = i
	}
	if n <= 4 {
		var rec func(cur []int, used []bool)
		rec = func(c []int, used []bool) {
			if len(c) == n {
				out = append(out, append([]int{}, c...))
				return
			}
			for i := 0; i < n; i++ {
				if !used[i] {
					used[i] = true
					rec(append(c, i), used)
					used[i] = false
				}
			}
		}
		rec(nil, make([]bool, n))
	} else {
		seen := map[string]bool{}
		add := func(p []int) {
			k := fmt.Sprint(p)
			if !seen[k] {
				seen[k] = true
				out = append(out, append([]int{}, p...))
			}
		}
		add(id)
		rev := make([]int, n)
		for i := range rev {
			rev[i] = n - 1 - i
		}
		add(rev)
		for r := 1; r < n; r++ {
			p := make([]int, n)
			for i := range p {
				p[i] = (i + r) % n
			}
			add(p)
		}
		for i := 0; i+1 < n; i++ {
			p := append([]int{}, id...)
			p[i], p[i+1] = p[i+1], p[i]
			add(p)
		}
	}
	if maxPerm > 0 && len(out) > maxPerm {
		out = out[:maxPerm]
	}
	permCache[ck] = out
	return out
}

// canonKey renders a map key deterministically: values by content, pointers by
// a digest of the pointee's scalar fields (for *scope that is its id, a
// function of the schedule), falling back to first-seen ordinals.
func canonKey(s *Sched, v reflect.Value) string {
	switch v.Kind() {
	case reflect.Pointer:
		if v.IsNil() {
			return "nil"
		}
		e := v.Elem()
		d := ""
		if e.Kind() == reflect.Struct {
			for i := 0; i < e.NumField(); i++ {
				f := e.Field(i)
				switch f.Kind() {
				case reflect.String:
					d += e.Type().Field(i).Name + "=" + strconv.Quote(f.String()) + ";"
				case reflect.Int, reflect.Int32, reflect.Int64:
					// skip mutable counters/flags: only immutable identity-like strings are used
				}
			}
		}
		if d != "" {
			return "&{" + d + "}"
		}
		if s != nil {
			p := unsafe.Pointer(v.Pointer())
			o, ok := s.ptrOrd[p]
			if !ok {
				o = len(s.ptrOrd)
				s.ptrOrd[p] = o
			}
			return fmt.Sprintf("ptr#%06d", o)
		}
		return fmt.Sprintf("ptr@%x", v.Pointer())
	case reflect.Struct:
		d := "{"
		for i := 0; i < v.NumField(); i++ {
			d += canonKey(s, v.Field(i)) + ","
		}
		return d + "}"
	case reflect.Interface:
		if v.IsNil() {
			return "<nil>"
		}
		e := v.Elem()
		if t, ok := ifaceOf(e).(reflect.Type); ok {
			return "T:" + t.String() + "/" + t.PkgPath()
		}
		return e.Type().String() + ":" + canonKey(s, e)
	case reflect.String:
		return strconv.Quote(v.String())
	case reflect.Int, reflect.Int8, reflect.Int16, reflect.Int32, reflect.Int64:
		return pad20(uint64(v.Int() + (1 << 62)))
	case reflect.Uint, reflect.Uint8, reflect.Uint16, reflect.Uint32, reflect.Uint64, reflect.Uintptr:
		return pad20(v.Uint())
	case reflect.Bool:
		return fmt.Sprint(v.Bool())
	}
	return fmt.Sprintf("%v", ifaceOf(v))
}

func pad20(u uint64) string {
	s := strconv.FormatUint(u, 10)
	for len(s) < 20 {
		s = "0" + s
	}
	return s
}

func ifaceOf(v reflect.Value) any {
	if v.CanInterface() {
		return v.Interface()
	}
	if v.CanAddr() {
		return reflect.NewAt(v.Type(), unsafe.Pointer(v.UnsafeAddr())).Elem().Interface()
	}
	return fmt.Sprintf("%v", v)
}
