//go:build verif

// Package sync is the scheduler-controlled stand-in for the standard sync
// package (godi's imports are redirected here by the rewriter). Outside a
// controlled execution every type behaves exactly like the real one.
package sync

import (
	"fmt"
	"sort"
	stdsync "sync"
	"unsafe"

	"github.com/junioryono/godi/v4/internal/vsched"
)

type Locker = stdsync.Locker
type Pool = stdsync.Pool

// Mutex

type Mutex struct {
	real   stdsync.Mutex
	locked bool
	owner  int
}

func (m *Mutex) Lock() {
	s, skip := vsched.SyncPoint("Mutex.Lock", func() bool { return !m.locked })
	if skip {
		return
	}
	if s == nil {
		m.real.Lock()
		return
	}
	m.locked = true
	m.owner = s.RunningID()
	s.Acquire(unsafe.Pointer(m))
}

func (m *Mutex) TryLock() bool {
	s, skip := vsched.SyncPoint("Mutex.TryLock", nil)
	if skip {
		return true
	}
	if s == nil {
		return m.real.TryLock()
	}
	if m.locked {
		return false
	}
	m.locked = true
	m.owner = s.RunningID()
	s.Acquire(unsafe.Pointer(m))
	return true
}

func (m *Mutex) Unlock() {
	s := vsched.Cur()
	if s == nil {
		m.real.Unlock()
		return
	}
	if s.Aborting() {
		return
	}
	if !m.locked {
		s.PanicNow("sync: unlock of unlocked mutex")
	}
	s.ReleaseSet(unsafe.Pointer(m))
	m.locked = false
}

// RWMutex

type RWMutex struct {
	real     stdsync.RWMutex
	writer   bool
	readers  int
	pendingW int  // writers that have announced themselves and wait for the readers to drain
	rtag     byte // address of this field keys the readers' release clock
}

// Lock follows Go's documented semantics: "a blocked Lock call excludes new
// readers from acquiring the lock". It is modelled in two steps, like the real
// implementation: the writer first announces itself (from then on RLock blocks),
// then waits until the current writer and all current readers are gone. A
// recursive RLock while a writer is pending therefore deadlocks here as it does
// in reality.
func (m *RWMutex) Lock() {
	s, skip := vsched.SyncPoint("RWMutex.Lock.announce", nil)
	if skip {
		return
	}
	if s == nil {
		m.real.Lock()
		return
	}
	m.pendingW++
	if _, skip := vsched.SyncPoint("RWMutex.Lock", func() bool { return !m.writer && m.readers == 0 }); skip {
		m.pendingW--
		return
	}
	m.pendingW--
	m.writer = true
	s.Acquire(unsafe.Pointer(m))
	s.Acquire(unsafe.Pointer(&m.rtag))
}

func (m *RWMutex) TryLock() bool {
	s, skip := vsched.SyncPoint("RWMutex.TryLock", nil)
	if skip {
		return true
	}
	if s == nil {
		return m.real.TryLock()
	}
	if m.writer || m.readers > 0 {
		return false
	}
	m.writer = true
	s.Acquire(unsafe.Pointer(m))
	s.Acquire(unsafe.Pointer(&m.rtag))
	return true
}

func (m *RWMutex) Unlock() {
	s := vsched.Cur()
	if s == nil {
		m.real.Unlock()
		return
	}
	if s.Aborting() {
		return
	}
	if !m.writer {
		s.PanicNow("sync: Unlock of unlocked RWMutex")
	}
	s.ReleaseSet(unsafe.Pointer(m))
	m.writer = false
}

func (m *RWMutex) RLock() {
	s, skip := vsched.SyncPoint("RWMutex.RLock", func() bool { return !m.writer && m.pendingW == 0 })
	if skip {
		return
	}
	if s == nil {
		m.real.RLock()
		return
	}
	m.readers++
	s.Acquire(unsafe.Pointer(m))
}

func (m *RWMutex) TryRLock() bool {
	s, skip := vsched.SyncPoint("RWMutex.TryRLock", nil)
	if skip {
		return true
	}
	if s == nil {
		return m.real.TryRLock()
	}
	if m.writer || m.pendingW > 0 {
		return false
	}
	m.readers++
	s.Acquire(unsafe.Pointer(m))
	return true
}

func (m *RWMutex) RUnlock() {
	s := vsched.Cur()
	if s == nil {
		m.real.RUnlock()
		return
	}
	if s.Aborting() {
		return
	}
	if m.readers <= 0 {
		s.PanicNow("sync: RUnlock of unlocked RWMutex")
	}
	s.Release(unsafe.Pointer(&m.rtag))
	m.readers--
}

type rlocker RWMutex

func (r *rlocker) Lock()   { (*RWMutex)(r).RLock() }
func (r *rlocker) Unlock() { (*RWMutex)(r).RUnlock() }

func (m *RWMutex) RLocker() Locker { return (*rlocker)(m) }

// Once

type Once struct {
	real    stdsync.Once
	done    bool
	running bool
}

func (o *Once) Do(f func()) {
	s, skip := vsched.SyncPoint("Once.Do", func() bool { return !o.running })
	if skip {
		return
	}
	if s == nil {
		o.real.Do(f)
		return
	}
	if o.done {
		s.Acquire(unsafe.Pointer(o))
		return
	}
	o.running = true
	defer func() {
		if s.Aborting() {
			return
		}
		o.done = true
		o.running = false
		s.Release(unsafe.Pointer(o))
	}()
	f()
}

func OnceFunc(f func()) func() {
	var once Once
	return func() { once.Do(f) }
}

func OnceValue[T any](f func() T) func() T {
	var once Once
	var r T
	return func() T {
		once.Do(func() { r = f() })
		return r
	}
}

func OnceValues[T1, T2 any](f func() (T1, T2)) func() (T1, T2) {
	var once Once
	var r1 T1
	var r2 T2
	return func() (T1, T2) {
		once.Do(func() { r1, r2 = f() })
		return r1, r2
	}
}

// WaitGroup

type WaitGroup struct {
	real stdsync.WaitGroup
	n    int
}

func (w *WaitGroup) Add(d int) {
	s := vsched.Cur()
	if s == nil {
		w.real.Add(d)
		return
	}
	if s.Aborting() {
		return
	}
	if d < 0 {
		s.Release(unsafe.Pointer(w))
	}
	w.n += d
	if w.n < 0 {
		s.PanicNow("sync: negative WaitGroup counter")
	}
}

func (w *WaitGroup) Done() { w.Add(-1) }

func (w *WaitGroup) Go(f func()) {
	w.Add(1)
	vsched.Go(func() {
		defer w.Done()
		f()
	})
}

func (w *WaitGroup) Wait() {
	s, skip := vsched.SyncPoint("WaitGroup.Wait", func() bool { return w.n == 0 })
	if skip {
		return
	}
	if s == nil {
		w.real.Wait()
		return
	}
	s.Acquire(unsafe.Pointer(w))
}

// Cond

type Cond struct {
	L       Locker
	real    *stdsync.Cond
	waiters []*bool
}

func NewCond(l Locker) *Cond { return &Cond{L: l, real: stdsync.NewCond(l)} }

func (c *Cond) Wait() {
	s := vsched.Cur()
	if s == nil {
		c.real.Wait()
		return
	}
	if s.Aborting() {
		return
	}
	woken := false
	c.waiters = append(c.waiters, &woken)
	c.L.Unlock()
	vsched.SyncPoint("Cond.Wait", func() bool { return woken })
	s.Acquire(unsafe.Pointer(c))
	c.L.Lock()
}

func (c *Cond) Signal() {
	s := vsched.Cur()
	if s == nil {
		c.real.Signal()
		return
	}
	if s.Aborting() {
		return
	}
	s.Release(unsafe.Pointer(c))
	if len(c.waiters) > 0 {
		*c.waiters[0] = true
		c.waiters = c.waiters[1:]
	}
}

func (c *Cond) Broadcast() {
	s := vsched.Cur()
	if s == nil {
		c.real.Broadcast()
		return
	}
	if s.Aborting() {
		return
	}
	s.Release(unsafe.Pointer(c))
	for _, w := range c.waiters {
		*w = true
	}
	c.waiters = nil
}

// Map: storage is the real sync.Map (each operation is one atomic step under
// the scheduler); every operation is a scheduling point and an
// acquire+release on the map's clock.

type Map struct {
	real stdsync.Map
}

func (m *Map) pt(op string) {
	s, skip := vsched.SyncPoint("Map."+op, nil)
	if skip || s == nil {
		return
	}
	s.Acquire(unsafe.Pointer(m))
	s.Release(unsafe.Pointer(m))
}

func (m *Map) Load(key any) (any, bool) { m.pt("Load"); return m.real.Load(key) }
func (m *Map) Store(key, value any)     { m.pt("Store"); m.real.Store(key, value) }
func (m *Map) Delete(key any)           { m.pt("Delete"); m.real.Delete(key) }
func (m *Map) Clear()                   { m.pt("Clear"); m.real.Clear() }
func (m *Map) LoadOrStore(key, value any) (any, bool) {
	m.pt("LoadOrStore")
	return m.real.LoadOrStore(key, value)
}
func (m *Map) LoadAndDelete(key any) (any, bool) {
	m.pt("LoadAndDelete")
	return m.real.LoadAndDelete(key)
}
func (m *Map) Swap(key, value any) (any, bool) { m.pt("Swap"); return m.real.Swap(key, value) }
func (m *Map) CompareAndSwap(key, old, new any) bool {
	m.pt("CompareAndSwap")
	return m.real.CompareAndSwap(key, old, new)
}
func (m *Map) CompareAndDelete(key, old any) bool {
	m.pt("CompareAndDelete")
	return m.real.CompareAndDelete(key, old)
}

// Range visits entries in a canonical (sorted by printed key) order so that
// executions are reproducible.
func (m *Map) Range(f func(key, value any) bool) {
	m.pt("Range")
	type kv struct {
		k, v any
		c    string
	}
	var all []kv
	m.real.Range(func(k, v any) bool {
		all = append(all, kv{k, v, fmt.Sprintf("%T:%v", k, k)})
		return true
	})
	sort.SliceStable(all, func(i, j int) bool { return all[i].c < all[j].c })
	for _, e := range all {
		if !f(e.k, e.v) {
			return
		}
	}
}
