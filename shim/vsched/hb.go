//go:build verif

package vsched

import (
	"fmt"
	"unsafe"
)

// VC is a vector clock indexed by thread id.
type VC []uint32

func (v *VC) tick(i int) {
	for len(*v) <= i {
		*v = append(*v, 0)
	}
	(*v)[i]++
}

func (v *VC) join(o VC) {
	for len(*v) < len(o) {
		*v = append(*v, 0)
	}
	for i, x := range o {
		if x > (*v)[i] {
			(*v)[i] = x
		}
	}
}

func (v VC) copy() VC {
	o := make(VC, len(v))
	copy(o, v)
	return o
}

func (v VC) at(i int) uint32 {
	if i < len(v) {
		return v[i]
	}
	return 0
}

// Race is one detected data race (pair of conflicting accesses not ordered by
// happens-before).
type Race struct {
	Field string
	A, B  string // sites
	Kinds string // "w/w", "r/w", "w/r", "a/w" ...
}

type acc struct {
	clk  uint32
	site string
	set  bool
}

const maxT = 12

type shadow struct {
	w  [maxT]acc // last plain write per thread
	r  [maxT]acc // last plain read per thread
	aw [maxT]acc // last atomic op per thread
}

func (s *Sched) report(field, a, b, kinds string) {
	k := field + "|" + a + "|" + b + "|" + kinds
	if s.raceSeen[k] {
		return
	}
	s.raceSeen[k] = true
	s.Races = append(s.Races, Race{Field: field, A: a, B: b, Kinds: kinds})
}

func fieldOf(site string) string {
	// site is "file:line T.f"
	for i := len(site) - 1; i >= 0; i-- {
		if site[i] == ' ' {
			return site[i+1:]
		}
	}
	return site
}

func (s *Sched) conc(t *thread, a *[maxT]acc, site string, kind int, kinds string) {
	me := t.id
	for tid := range a {
		x := &a[tid]
		if !x.set || tid == me {
			continue
		}
		if x.clk > t.vc.at(tid) {
			f := fieldOf(site)
			if kind >= 2 {
				f = fieldOf(x.site)
			}
			s.report(f, x.site, site, kinds)
		}
	}
}

// access records a plain (kind 0/1 = read/write) or atomic (kind 2/3) access
// by the running thread and reports conflicts with earlier accesses that do
// not happen-before it.
func (s *Sched) access(p unsafe.Pointer, site string, kind int) {
	if s.NoRace || !s.multi {
		return
	}
	t := s.running
	me := t.id
	if me >= maxT {
		return
	}
	sh := s.shadow[p]
	if sh == nil {
		sh = &shadow{}
		s.shadow[p] = sh
	}
	switch kind {
	case 0: // plain read: conflicts with plain writes and atomic writes
		s.conc(t, &sh.w, site, kind, "w/r")
		s.conc(t, &sh.aw, site, kind, "a/r")
		sh.r[me] = acc{t.vc.at(me), site, true}
	case 1:
		s.conc(t, &sh.w, site, kind, "w/w")
		s.conc(t, &sh.r, site, kind, "r/w")
		s.conc(t, &sh.aw, site, kind, "a/w")
		sh.w[me] = acc{t.vc.at(me), site, true}
	case 2: // atomic store / read-modify-write: conflicts with plain accesses only
		s.conc(t, &sh.w, site, kind, "w/a")
		s.conc(t, &sh.r, site, kind, "r/a")
		sh.aw[me] = acc{t.vc.at(me), site, true}
	case 3: // atomic load: conflicts with plain writes only
		s.conc(t, &sh.w, site, kind, "w/a")
	}
}

// R marks a plain read of the field at p (inserted by the rewriter).
func R[T any](p *T, site string) *T {
	if s := cur; s != nil && !s.aborting {
		s.access(unsafe.Pointer(p), site, 0)
	}
	return p
}

// W marks a plain write of the field at p (inserted by the rewriter).
func W[T any](p *T, site string) *T {
	if s := cur; s != nil && !s.aborting {
		s.access(unsafe.Pointer(p), site, 1)
	}
	return p
}

// ------------------------------------------------------------- sync objects

// SyncPoint is a scheduling point for an operation on the synchronisation
// object at p that is enabled iff pred(); it returns the active scheduler, or
// nil when the caller must fall through to the real primitive, plus skip=true
// when the operation must be a no-op (execution is being torn down).
func SyncPoint(op string, pred func() bool) (s *Sched, skip bool) {
	s = cur
	if s == nil {
		return nil, false
	}
	if s.aborting {
		return nil, true
	}
	s.point(op, pred)
	return s, false
}

// Acquire joins the clock stored for p into the running thread's clock.
func (s *Sched) Acquire(p unsafe.Pointer) {
	if v := s.syncVC[p]; v != nil {
		s.running.vc.join(*v)
	}
}

// Release stores (joins) the running thread's clock into the clock for p.
func (s *Sched) Release(p unsafe.Pointer) {
	t := s.running
	v := s.syncVC[p]
	if v == nil {
		v = &VC{}
		s.syncVC[p] = v
	}
	v.join(t.vc)
	t.vc.tick(t.id)
}

// ReleaseSet overwrites the clock for p with the running thread's clock.
func (s *Sched) ReleaseSet(p unsafe.Pointer) {
	t := s.running
	c := t.vc.copy()
	s.syncVC[p] = &c
	t.vc.tick(t.id)
}

// Atomic is the scheduling point + happens-before edge pair of one atomic
// operation on the word at p. It returns false when the caller should simply
// perform the real operation without bookkeeping.
func Atomic(p unsafe.Pointer, op string, write bool) {
	s := cur
	if s == nil || s.aborting {
		return
	}
	s.point(op, nil)
	if write {
		s.access(p, op, 2)
	} else {
		s.access(p, op, 3)
	}
	s.Acquire(p)
	if write {
		s.Release(p)
	}
}

// RunningID returns the id of the running thread.
func (s *Sched) RunningID() int { return s.running.id }

// Aborting reports whether the execution is being torn down.
func (s *Sched) Aborting() bool { return s.aborting }

// PanicNow records a modelled fatal condition (e.g. unlock of unlocked mutex).
func (s *Sched) PanicNow(msg string) {
	panic(fmt.Sprintf("vsched: %s", msg))
}
