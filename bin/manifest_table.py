not_applicable = {}
claimed["C04"] = (
 "exhaustive enumeration of configuration space on the real container + reference registry model",
 "All (function-value kind x lifetime) cases and all sets of <=2 producer forms x 3 consumer parameter shapes x 6 lifetime pairings are built on the real container; every constructor invocation's arguments and every identity of a 14-type x 3-key x 2-group universe is compared with the reference registry model. Exhaustive within those bounds, not sampled.",
 "bounds: <=2 producer templates per configuration (21 templates), one consumer; forms outside the template list (e.g. As combined with multiple returns) are not covered",
 "DESIGN.md 6/C04")
claimed["C13"] = (
 "stateless schedule exploration of the real code (preemption-bounded DFS with happens-before state caching) + exhaustive sequential history enumeration against a closed-means-closed model",
 "Every schedule with <=2 (quick) / <=3 (thorough) preemptions of {Close(scope), Close(ancestor), Close(provider), cancel()} || {Get scoped/transient/keyed, GetGroup, CreateScope child, provider.CreateScope, provider.Get} on the real provider, with a happens-before race detector on every execution, followed by retries on every closed object; plus every sequential history to depth 4/5 over create/resolve/close/cancel on <=3 scopes.",
 "bounds: 2 harness threads + watcher goroutines, preemption bound 2/3, histories to depth 4/5, <=3 scopes; equivalent schedules (same happens-before graph and harness log) are explored once",
 "DESIGN.md 6/C13")
claimed["C09"] = (
 "stateless schedule exploration of the real code (preemption-bounded DFS, happens-before state caching) with a vector-clock data-race detector on every execution",
 "All 91 two-operation programs (quick: preemption bound 1, bound 2 for 10 core pairs; thorough: bound 2/3 and all 455 three-operation programs at bound 1) over a 13-operation alphabet on one shared provider; every execution is checked for data races on godi's struct fields (vector clocks over mutex/RWMutex/atomic/sync.Map/spawn/join/cancel edges), panics, deadlocks, undocumented errors and lifetime-rule breaches.",
 "bounds as stated; races inside user values, reflect, context are out of scope of the detector; the free-running -race pass is not part of the verdict",
 "DESIGN.md 6/C09")
_life_note = "bounds: <=2 producer templates per configuration; histories to depth 3/4 on <=3 scopes; 2-3 resolver goroutines, preemption bound 2/3"
claimed["C01"] = (
 "exhaustive configuration + history enumeration on the real container and preemption-bounded schedule exploration, invariant oracle over a recorder of every constructor invocation",
 "Singleton lifetime: constructor invocation count == 1 (at Build) and identity of every hand-out (results and constructor arguments, by type/key/group/alias, from provider / scope / child scope) checked on every configuration of the form space, every history to depth 3/4 over a 16-registration container and every schedule (bound 2/3) of concurrent resolutions colliding on the same singleton identities.",
 _life_note, "DESIGN.md 6/C01")
claimed["C02"] = (
 "exhaustive configuration + history enumeration on the real container and preemption-bounded schedule exploration, invariant oracle over a recorder of every constructor invocation",
 "Scoped lifetime: <=1 successful construction per (registration, scope), identical hand-outs within a scope, no instance crossing scopes, initializers exactly once per created scope - on every configuration, history (depth 3/4, scope trees of <=3 scopes + root) and schedule (2-3 goroutines resolving the same scoped service directly / through a dependent / through its group / through its second output, with and without a failing first construction).",
 _life_note, "DESIGN.md 6/C02")
claimed["C03"] = (
 "exhaustive configuration + history enumeration on the real container, invariant oracle over a recorder of every constructor invocation",
 "Transient lifetime: every transient instance handed out exactly once (as a result or as a constructor argument) and every successful construction delivered - on every configuration, every history to depth 3/4 (transients consumed by singletons at Build, by scoped services, by other transients, twice by one constructor, through groups and keys) and concurrent resolutions.",
 _life_note, "DESIGN.md 6/C03")
claimed["C10"] = (
 "exhaustive history x fault-position enumeration on the real container + preemption-bounded schedule exploration of Close vs in-flight construction; end-state oracle over recorded Close calls",
 "Every history to depth 5/6 on <=3 scopes of an all-disposable container, every single constructor fault position (error / panic at invocation 1..2(3) of each of 8 constructors, during Build, scope creation with initializers, resolution) over every history to depth 3/4, and every schedule (bound 2/3) of 7 Close-vs-construction scenarios; each execution ends by closing the provider and is judged by: closed exactly once, never before a Close/cancel of the owner chain started, never leaked, non-disposables untouched.",
 "bounds as stated; one fault per execution; owners are derived from the operation during which the constructor ran",
 "DESIGN.md 6/C10")
claimed["C11"] = (
 "exhaustive history enumeration on the real container; order oracle on the global stamp sequence of recorded Close calls",
 "Every history to depth 5/6 over {CreateScope, nested CreateScope, 4 resolutions, Close(scope|provider), cancel} on <=3 scopes (+ root scope) of an all-disposable container with and without initializers; oracle: reverse creation order within each owner, descendants before ancestors' own instances, every scope-owned instance before any singleton.",
 "bounds as stated; sequential histories only (the property does not quantify over schedules)",
 "DESIGN.md 6/C11")
claimed["C12"] = (
 "exhaustive fault-subset enumeration (all 2^8 subsets of failing Close methods x 5 first-close choices) + preemption-bounded schedule exploration of concurrent Close calls",
 "All 256 subsets of 8 owned disposables failing on a 4-scope tree x {Close(s1), Close(s2), Close(s3), Close(provider), cancel} first, then repeated closes; plus every schedule (bound 2/3) of 2-3 concurrent Close / cancel calls with 3 failing sets. Oracle: every owned instance attempted exactly once, DisposalError iff a failing instance was closed by that call, every injected error reachable from exactly one returned error, repeated and losing Closes return nil.",
 "bounds as stated; errors of closes performed by the cancellation watcher are documented as ignored and are not required to be reported",
 "DESIGN.md 6/C12")
claimed["C19"] = (
 "explicit-state breadth-first search over the real internal/graph component against a reference digraph, states = (model, reflective deep dump), successors by replay on fresh graphs",
 "BFS over {AddProvider, AddProviderDeferred(+DetectCycles), RemoveProvider, Clear, DetectCycles} on pools of 2 and 3 node identities (type/key/group mixed): with dependency lists of length <=1 the canonical state space CLOSES (depth 6 / 8), which covers operation sequences of any length over that alphabet; with lists of length 2 the search is cut at a state cap and reported as not exhaustive. After every transition all 12 queries are issued twice in different orders and compared with the digraph; a rejected add must leave the cache-free deep dump unchanged. Thorough adds a 4-identity pool.",
 "immediate adds are only issued on graphs that are acyclic and whose deferred adds were completed by DetectCycles; degree-based queries are compared only then",
 "DESIGN.md 6/C19")
claimed["C05"] = (
 "exhaustive enumeration of all digraphs (graph component and container) with controlled map-iteration order, against a plain-digraph reference",
 "Graph component: all 65,536 digraphs on 4 labelled nodes and all 512 on 3, x deferred+DetectCycles / immediate adds x both dependency-list orders x canonical and reversed map base order, plus every single map-range permutation for 3-node graphs (4-node in thorough): verdict == reference DFS, reported path is a cycle of real edges. Container: all digraphs on <=3 services x all per-target forms (plain/keyed/group) x 3 lifetimes, all digraphs on 4 services x uniform forms: circular-dependency error (through BuildError) iff cyclic, path checked, every identity of accepted sets resolves.",
 "no claim beyond 4 nodes/services",
 "DESIGN.md 6/C05")
claimed["C07"] = (
 "exhaustive enumeration of (DAG x lifetime assignment x dependency form) registration sets on the real container against the reference lifetime rule",
 "All DAGs on <=4 services x all 3^n lifetime assignments x forms (per-target plain/keyed/group for n<=3, uniform for n=4, interface aliases, In-struct and positional): LifetimeConflictError through BuildError iff the model finds a singleton/transient -> scoped edge; after success every identity is resolved in a scope, its child and again, and no recorded singleton/transient constructor invocation may have received a scoped instance.",
 "no claim beyond 4 services", "DESIGN.md 6/C07")
claimed["C08"] = (
 "exhaustive enumeration of registration sets with unregistered / optional dependencies on the real container against the reference resolvability rule",
 "All DAGs on <=3 services (4 with 5 lifetime patterns; all 81 in thorough) x every subset of non-root services unregistered x lifetimes x {plain, keyed, group} x optional-ness patterns x dependent form {In constructor, positional constructor, void initializer, error-only initializer}: Build succeeds iff no lifetime conflict and no missing required dependency; after success no resolution or scope creation fails with 'service not found'.",
 "no claim beyond 4 services", "DESIGN.md 6/C08")
claimed["C06"] = (
 "exhaustive enumeration of registration sets x all registration-order permutations x controlled map-iteration orders on the real container; differential oracle against the reference order",
 "Every configuration (all digraphs on <=3 services x per-target forms x lifetime patterns; 4-service DAGs; two-member groups with dependent members) is built under ALL permutations of its registration calls and under canonical, reversed and every single-deviation map iteration order: verdict class and canonical object graph must coincide with the reference order, and recorder stamps must show every singleton finished before its dependents started (group edges included). TopologicalSort is checked on all 543 labelled DAGs on <=4 nodes under the same order deviations.",
 "map order deviation bound 1 (2 in thorough for the graph component); no claim beyond 4 services",
 "DESIGN.md 6/C06")
claimed["C17"] = (
 "exhaustive operation-sequence enumeration on the real collection against a reference registry, with reflective deep-dump comparison for atomicity and a differential snapshot oracle",
 "Every sequence to depth 3/4 over 20 operations (14 Add forms incl. colliding multi-output and invalid options, Remove/RemoveKeyed, AddModules): queries equal the reference registry after every step, rejected calls leave the deep dump unchanged, Build does not change the dump, no constructor of a removed/rejected registration runs, the full identity universe of the built provider equals the model, and a provider built earlier answers identically after each of 6 later mutations of the collection.",
 "depth 3 (quick) / 4 (thorough); pool of 6 types, keys {k}, groups {g}",
 "DESIGN.md 6/C17")
claimed["C20"] = (
 "exhaustive enumeration of module trees with a differential (twin collection) oracle on the real container",
 "All ordered module forests with <=3 leaves at nesting <=3 and 4 leaves at nesting <=1 (thorough: 4 leaves nesting <=3, 5 leaves nesting <=1), every leaf from 7 kinds (Add ok / keyed / duplicate / invalid options, Remove, RemoveKeyed, nil), so a failing entry occurs at every position and depth; a twin collection receives the flattened calls directly: deep dumps, queries, Build verdicts, full identity-universe answers of both providers and the ModuleError chain (one wrapper per enclosing module, outermost first, cause reachable with the same errors.Is/As classes) must coincide.",
 "bounds as stated", "DESIGN.md 6/C20")
claimed["C18"] = (
 "exhaustive enumeration of scope trees x context kinds x consumer shapes on the real container; identity oracle on every recorded constructor argument",
 "All 27 context-kind combinations of a 3-deep scope chain x positional / In-struct consumers x 2 resolution orders: every recorded built-in argument of singleton / scoped / transient / initializer / group-member / nested constructors and every direct Get of Context, Scope, Provider is compared by identity with the issuing scope, its Context() and the root provider; context value inheritance, FromContext (direct and derived), cancellation propagation; 14 registration routes of the reserved types must fail without changing the collection.",
 "scope chains of depth 3", "DESIGN.md 6/C18")
claimed["C14"] = (
 "exhaustive history x fault-position enumeration on the real container under the controlled scheduler (thread table = goroutines), reflective reachability oracle; cycle repetition to a fixed point",
 "Every history to depth 5/6 over create/nest/use/close on <=3 scopes sharing one never-cancelled caller context, with 0-3 scope initializers one of which fails at every position: at the end exactly one waiting goroutine per open scope, closed scopes have cancelled contexts and are unreachable (reflective traversal incl. unexported fields) from provider, open parent and the caller context, their instances are unreachable from the provider, failed creations left nothing unclosed. Five cycle shapes repeated 6 times: reachable-object counts and goroutine counts are constant from the second cycle on.",
 "memory is measured as the number of objects reachable from the provider / the caller context, not in bytes; scheduler threads stand for goroutines",
 "DESIGN.md 6/C14")
claimed["C15"] = (
 "exhaustive fault-position enumeration (every registration x invocation x fault kind) and exhaustive API-argument enumeration on the real container",
 "6 dependency shapes x 5 lifetime patterns x every registration x invocation 1..3 x 6 fault kinds (error, nil, panic with string/error/struct/nil), each followed by retries, a second scope and Close: no panic escapes, the constructor's error is reachable by errors.As, panics surface as ConstructorPanicError carrying the value, retries succeed, lifetime / wiring / disposal oracles hold. ~1,000 API calls with nil / typed-nil / zero / unregistered / mismatched / invalid arguments never panic; Must* panic iff the plain call errs; 30 error-class routes through Build / resolution / registration / module wrappers are recognisable with errors.Is/As.",
 "one fault per execution; hashable keys only", "DESIGN.md 6/C15")
claimed["C16"] = (
 "exhaustive enumeration of (integration x options x exit path) and of two-request sequences on the real adapters and frameworks, plus preemption-bounded schedule exploration of concurrent requests",
 "For net/http, chi, gin, echo and fiber: every combination of error-handler / Handle-handler / recovery options, 0-2 configured middlewares and 9 exit paths (incl. middleware error at every position, handler panic, failing scope creation, closed provider, unregistered controller, missing middleware), every ordered pair of exit paths on one router, and every schedule (bound 2/3) of two concurrent requests (http, chi, gin, echo): scopes created per request, which handlers ran, middleware order, scope identity seen by all, controller resolved from it, exactly-once closing of everything created for the request on every exit path, panic swallowing iff recovery is enabled.",
 "framework internals are not under scheduler control (they run atomically between godi's synchronisation points); fiber only sequentially and behind its own recover middleware",
 "DESIGN.md 6/C16")

# ---- round 2 additions (appended to the level text of each check)
_r2 = {
 "C01": "Round 2: forms with two aliases in a group whose member lists differ in length; two providers built from one collection and alive together (every history to depth 4/5 over use/close of both): one construction per singleton per provider, nothing shared. Singletons looked up while Build runs: three singletons, all 64 dependency edge sets x injected {Provider, Scope} x looked-up targets x 6 registration orders, the lookups made by a constructor itself and by a goroutine it starts (all schedules within the bound).",
 "C02": "Round 2: scoped result objects with a nil field (only handed-out identities are judged); one scoped registration behind two interface aliases resolved concurrently through different aliases / their dependents; groups with members of all three lifetimes in every registration order. An output of a scoped multi-output registration removed before Build and registered again by another constructor, both resolved concurrently (result object / multiple returns; direct and through dependents), with a per-identity oracle. Initializer histories in which the collection is edited after Build (initializers and services removed) and an initializer depends on a later registered one: every scope runs each initializer exactly once.",
 "C03": "Round 2: rebuild-after-edit histories with the clause that a registered optional transient dependency is injected whatever earlier providers of the collection saw; same-signature registrations resolved concurrently; groups with members of all three lifetimes in all 6 registration orders, requested repeatedly in one scope. Clause 'one invocation per request site': no invocation of a multi-output transient constructor serves two sites.",
 "C04": "Round 2: rebuild-after-edit histories (optional dependencies registered after an earlier Build must be injected); instance values behind one / two aliases; result objects carrying one type under unkeyed / group / keyed fields; one output of a multi-output registration removed and registered again with another constructor; three-output constructors with a nil output (the others keep their identities).",
 "C05": "Round 2: container cases also with every edge declared as an optional In field and with ascending / descending registration order.",
 "C06": "Round 2: rebuild-after-edit: every history to depth 5/6 over {12 Add variants, Remove x3, RemoveKeyed, Build x<=2}, each Build verdict compared with a fresh collection holding the surviving registrations.",
 "C07": "Round 2: the rebuild-after-edit histories (see C06) with the captive-instance clause: no Build, however the collection got there, hands a scoped instance to a singleton / transient.",
 "C08": "Round 2: dependencies declared twice as an optional field followed by a required field; every per-service form assignment for <=3 services (group-member / keyed / aliased dependents with plain dependencies); the rebuild-after-edit histories (see C06) with the not-found clauses. Dependencies on the built-in injectables as plain, keyed, keyed-optional, optional and group fields (one or two) of constructors and initializers of every lifetime.",
 "C09": "Round 2: sync.RWMutex modelled with Go's writer preference; a scoped initializer that calls back into the container (creates a child scope) against Close(provider) / CreateScope / Get.",
 "C10": "Round 2: multi-return constructors whose nil output is a nil interface next to a live disposable sibling; initializer / scoped-service errors wrapping another scope's disposed sentinel; services whose dynamic type (disposable or not) varies between invocations; multi-output constructors with a partial-nil first invocation; one disposable behind two interface aliases (all lifetimes); two providers from one collection (closing one closes exactly what it owns). Fault kind 'the Build context is cancelled while this constructor runs' at every Build-time constructor, on the rich container and on dependency chains whose last node is a singleton.",
 "C11": "Round 2: held-open oracle (no disposable closed while an established, still-open disposable that received it exists), also on every schedule (bound 2/3) of the 9 Close-overlap scenarios - beyond the property's own quantifier. The C12 fault sequences (every subset of failing Close methods on provider > s1 > {s2, s3}, every node closed first) under the order oracle. Failing initializers (error / panic at invocation 1-3): the half-built scope is torn down in reverse creation order.",
 "C12": "Round 2: re-entrant Close (an owned instance closing its scope / the parent from its own Close) through Close(scope|parent|provider) and cancel; an interface-typed service that is disposable only in some scopes; a disposable singleton behind two interface aliases is part of the tree (512 subsets). Churn histories (children of one parent created and closed in every order, all / none / alternate instances failing) judged on stamps: when the first Close of a node returns, everything its subtree owned has been attempted and the verdict matches the failures inside that window.",
 "C13": "Round 2: two overlapping cascades (Close(parent)||Close(provider), Close(parent) x2, Close(child)||Close(provider)) followed by use, judged on returned-Close stamps; overlap scenarios with the late instance's own Close failing; two providers from one collection. A disposable whose Close joins whatever another goroutine is doing on the scope (scoped in the scope / its parent, or a singleton) x 4 closers x 4 in-flight operations, all schedules within the bound: no deadlock. In-flight constructions with optional / group parameter-object fields on disposables overlapping every closer: never a half-initialised result.",
 "C15": "Round 2: every cyclic set on <=3 services is classifiable as CircularDependencyError; no panic while provider.Close is parked in user Close methods (all schedules); shape optional-deep (failures below a registered optional dependency); schedules of a resolution overlapping Close whose late instance fails its Close: errors.Is(disposed) must still hold.",
 "C16": "Round 2: a request passing the scope middleware twice (nested installation) on all five integrations.",
 "C17": "Round 2: named initializer functions and RemoveKeyed(struct{}, name); grouped registrations rejected for a reserved type at a later output; a reduced churn alphabet (plain / keyed / grouped adds of one type around removals) searched to depth 5/6. Instance registrations of NON-pointer values (plain, keyed, grouped, rejected) around Remove / RemoveKeyed to depth 4 (5).",
 "C18": "Round 2 (rebuilt): 6 tree shapes of three scopes x 5 context kinds per scope (incl. contexts derived from the parent's and from another scope's Context()) x 3 resolution orders; FromContext of every injected context; cancellation must not leak to unrelated scopes; every schedule (bound 2/3) of two goroutines resolving built-in consumers in different scopes; 21 reserved-type registration routes incl. all grouped batch forms; built-ins as optional parameter-object fields; a singleton that warms up through a self-made scope during Build.",
 "C19": "Round 2: every DAG on 4 and 5 nodes (all edge sets respecting one topological order x all relabellings) built deferred and immediately from both base map orders, all queries compared. Multi-edges (a provider naming one dependency twice) are part of the alphabet; dependents are compared as sets.",
 "C20": "Round 2: nested trees judged under three module-naming schemes (unique / one name / alternating); the same module values applied to a second fresh collection. Forests of <=3 (4) leaves also with all-scoped, all-transient and rotating lifetimes of the Add entries.",
}
for _k, _v in _r2.items():
    t = claimed[_k]
    claimed[_k] = (t[0], t[1] + " " + _v, t[2], t[3])
