not_applicable = {}
claimed["C04"] = (
 "exhaustive enumeration of configuration space on the real container + reference registry model",
 "All (function-value kind x lifetime) cases and all sets of <=2 producer forms x 3 consumer parameter shapes x 6 lifetime pairings are built on the real container; every constructor invocation's arguments and every identity of a 14-type x 3-key x 2-group universe is compared with the reference registry model. Exhaustive within those bounds, not sampled.",
 "bounds: <=2 producer templates per configuration (21 templates), one consumer; forms outside the template list (e.g. As combined with multiple returns) are not covered",
 "DESIGN.md 6/C04")
